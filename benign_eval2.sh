#!/bin/sh
# usage: benign_eval2.sh <dir-with-patch.diff>: the change is applied where it was recorded (be7085a) and the
# later repairs of /repo are cherry-picked on top; then every check's quick tier runs against that tree.
d=$1; shift
props=${*:-C03 C06 C07 C09 C10 C11 C12 C13 C15 C16 C19}
export GOFLAGS=-mod=mod GOPROXY=off GOSUMDB=off GOTOOLCHAIN=local
wt=/tmp/wt-bn2-$$
git -C /repo worktree add -q --detach $wt be7085a || exit 2
trap 'git -C /repo worktree remove --force $wt; rm -f /verif/bin/simworker-*-* /verif/bin/simworker-[0-9a-f]* ' EXIT
cd $wt
git apply $d/patch.diff 2>/dev/null || git apply --3way $d/patch.diff >/dev/null 2>&1 || { echo "BENIGN: patch does not apply to be7085a"; exit 2; }
git add -A >/dev/null; git -c user.name=x -c user.email=x@x commit -q -m benign
git -c user.name=x -c user.email=x@x cherry-pick 27c25d9 66fb5ed >/dev/null 2>&1 || { echo "BENIGN: the later repairs do not cherry-pick onto it"; git cherry-pick --abort; exit 2; }
go build ./... && go vet . >/dev/null 2>&1 || { echo "BENIGN: does not compile/vet"; exit 3; }
go test -count=1 . 2>&1 | tail -1 | grep -q '^ok' && echo "BENIGN: repo suite passes" || echo "BENIGN: repo suite FAILS"
cd /verif
for p in $props; do
  VERIF_REPO=$wt ./check run $p --tier quick > /tmp/bn2-$$.log 2>&1; code=$?
  echo "BENIGN: $p exit $code $(grep -E '^simcheck: C[0-9]+ quick' /tmp/bn2-$$.log | sed 's/.*quick: //' | cut -c1-60)"
  grep -E "^(VIOLATION|simcheck: (run|infra))" /tmp/bn2-$$.log | cut -c1-500
done
rm -f /tmp/bn2-$$.log
