#!/bin/sh
# usage: benign_eval.sh <dir-with-patch.diff> [properties...]
# A change that is meant to be correct: applies it in a scratch worktree, confirms that the repository
# suite passes (also under -race), then runs the quick tier of every claimed check against it.
# Every check must exit 0 without a VIOLATION line (KNOWN-FINDING lines are expected).
d=$1; shift
props=${*:-C03 C06 C07 C09 C10 C11 C12 C13 C15 C16 C19}
export GOFLAGS=-mod=mod GOPROXY=off GOSUMDB=off GOTOOLCHAIN=local
wt=/tmp/wt-bn-$$
git -C /repo worktree add -q --detach $wt HEAD || exit 2
trap 'git -C /repo worktree remove --force $wt; rm -f /verif/bin/simworker-*-* /verif/bin/simworker-[0-9a-f]* ' EXIT
cd $wt
git apply $d/patch.diff || { echo "BENIGN: patch does not apply"; exit 2; }
go build ./... && go vet . >/dev/null 2>&1 || { echo "BENIGN: does not compile/vet"; exit 3; }
go test -count=1 . 2>&1 | tail -1 | grep -q '^ok' && echo "BENIGN: repo suite passes" || echo "BENIGN: repo suite FAILS"
go test -race -count=1 . 2>&1 | tail -1 | grep -q '^ok' && echo "BENIGN: repo suite passes under -race" || echo "BENIGN: repo suite FAILS under -race"
if [ -f $d/zz_demo_test.go ]; then cp $d/zz_demo_test.go .; go test -race -count=1 -run 'ZZDemo' . 2>&1 | tail -1; rm zz_demo_test.go; fi
cd /verif
for p in $props; do
  VERIF_REPO=$wt ./check run $p --tier quick > /tmp/bn-$$.log 2>&1; code=$?
  echo "BENIGN: $p exit $code $(grep -E '^simcheck: C[0-9]+ quick' /tmp/bn-$$.log | sed 's/.*quick: //' | cut -c1-60)"
  grep -E "^(VIOLATION|simcheck: (run|infra))" /tmp/bn-$$.log | cut -c1-700
done
rm -f /tmp/bn-$$.log
