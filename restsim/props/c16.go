package props

import (
	"encoding/json"
	"encoding/xml"
	"fmt"
	"math"
	"reflect"
	"strings"
	"time"

	restful "github.com/emicklei/go-restful/v3"

	"restsim/sim"
)

func init() {
	register(&PropInfo{ID: "C16", Run: runC16, UseRace: true, Level: "exploration"})
}

type c16Inner struct {
	K string  `json:"k" xml:"k"`
	V int64   `json:"v" xml:"v"`
	F float64 `json:"f" xml:"f"`
}

type c16Entity struct {
	XMLName xml.Name          `json:"-" xml:"ent"`
	I64     int64             `json:"i64" xml:"i64"`
	U64     uint64            `json:"u64" xml:"u64"`
	F       float64           `json:"f" xml:"f"`
	B       bool              `json:"b" xml:"b"`
	S       string            `json:"s" xml:"s"`
	Strs    []string          `json:"strs" xml:"strs>s"`
	In      c16Inner          `json:"in" xml:"in"`
	Ins     []c16Inner        `json:"ins" xml:"ins>in"`
	M       map[string]string `json:"m" xml:"-"`
	Any     interface{}       `json:"any" xml:"-"`
}

type c16Req struct {
	ID      int    `json:"id"`
	Codec   string `json:"codec"` // json | xml
	CTForm  int    `json:"content_type_spelling"`
	Coding  string `json:"content_encoding"`
	Pretty  bool   `json:"pretty"`
	Size    int    `json:"size"`
	Seed    int    `json:"value_seed"`
	BChunks []int  `json:"body_chunks"`
	Members int    `json:"gzip_members,omitempty"`                        // >1: the gzip body is a series of members (RFC 1952), the entity spans them
	ZWin    int    `json:"zlib_header_declares_smaller_window,omitempty"` // deflate bodies up to 4000 bytes: the zlib header declares a 16K/8K/4K window (legal; Go's own writer always says 32K)
	Fault   string `json:"fault"`                                         // "", btrunc, berr, bhdr, bflip, bmislabel
	FaultAt int    `json:"fault_at_permille"`

	value   *c16Entity
	body    []byte
	ct      string
	got     *c16Entity
	readErr error
	ran     bool
	escaped interface{}
	wstatus int
}

type c16Scen struct {
	Provider string      `json:"provider"`
	WCap     int         `json:"wcap"`
	RCap     int         `json:"rcap"`
	Default  string      `json:"default_request_content_type"`
	Preempt  int         `json:"preempt_permille"`
	Clients  [][]*c16Req `json:"clients"`
	Raw      bool        `json:"provider_installed_without_the_ledger,omitempty"`
	Noise    int         `json:"noise_round_trips_before,omitempty"` // the long-lived server: so many small round trips with header spellings of their own come first
}

var c16Alphabet = []rune("\ufeffaZ09 _-.,;:!?/\\\"'<>&{}[]()=+*#@\t\nàéîõüßñçøåΩλπЖяשלוםمرحبا你好世界日本語한국어😀🚀𝔘  �퟿")

func c16String(x *uint64, n int) string {
	var sb strings.Builder
	for i := 0; i < n; i++ {
		*x = *x*6364136223846793005 + 1442695040888963407
		sb.WriteRune(c16Alphabet[(*x>>33)%uint64(len(c16Alphabet))])
	}
	return sb.String()
}

func c16Value(seed, size int, codec string) *c16Entity {
	x := uint64(seed)*2654435761 + 12345
	next := func() uint64 { x = x*6364136223846793005 + 1442695040888963407; return x >> 11 }
	e := &c16Entity{}
	e.I64 = []int64{math.MaxInt64, math.MinInt64, 0, -1, 1 << 53, (1 << 53) + 1, int64(next())}[next()%7]
	e.U64 = []uint64{math.MaxUint64, 0, 1 << 63, (1 << 53) + 1, next()}[next()%5]
	e.F = []float64{0, -0.5, 1e-320, math.MaxFloat64, math.SmallestNonzeroFloat64, 3.141592653589793, 1e21, float64(next()) / 7}[next()%8]
	e.B = next()%2 == 0
	e.S = c16String(&x, size%50)
	for i := 0; i < size/40; i++ {
		e.Strs = append(e.Strs, c16String(&x, int(next()%30)))
	}
	e.In = c16Inner{K: c16String(&x, 5), V: int64(next()) - (1 << 40), F: float64(int64(next()%2000)-1000) / 8}
	for i := 0; i < size/100; i++ {
		e.Ins = append(e.Ins, c16Inner{K: c16String(&x, 3), V: int64(next())})
	}
	if codec == "json" {
		e.M = map[string]string{}
		for i := 0; i < size/60; i++ {
			e.M[c16String(&x, 4)+fmt.Sprint(i)] = c16String(&x, 6)
		}
		// an integer that float64 cannot represent, in a dynamically typed position
		e.Any = json.Number([]string{"9007199254740993", "18446744073709551615", "-9223372036854775808", "7"}[next()%4])
	}
	return e
}

// normalise makes nil and empty collections equal and drops the XML name (set by the decoder).
func (e *c16Entity) normalise() *c16Entity {
	c := *e
	c.XMLName = xml.Name{}
	if len(c.Strs) == 0 {
		c.Strs = nil
	}
	if len(c.Ins) == 0 {
		c.Ins = nil
	}
	if len(c.M) == 0 {
		c.M = nil
	}
	return &c
}

func genC16(x *Ctx) *c16Scen {
	tp := x.Tape
	sc := &c16Scen{}
	switch tp.G(4) {
	case 0, 1:
		sc.Provider = "bounded"
		sc.WCap = []int{1, 0, 2}[tp.G(3)]
		sc.RCap = []int{1, 0, 2}[tp.G(3)]
	case 2:
		sc.Provider = "lifo"
	case 3:
		sc.Provider = "syncpool"
	}
	sc.Default = []string{"", "application/json", "application/xml"}[tp.G(3)]
	sc.Preempt = []int{200, 50, 500}[tp.G(3)]
	nClients := 2
	maxReq, maxSize := 5, 600
	if x.Thorough() {
		maxReq, maxSize = 12, 20000
	}
	id := 0
	tp.Repeat(1, nClients, 500, func(int) {
		var reqs []*c16Req
		tp.Repeat(2, maxReq, 600, func(int) {
			id++
			r := &c16Req{ID: id}
			r.Codec = []string{"json", "xml"}[tp.G(2)]
			r.CTForm = tp.G(5)
			if tp.Chance(150) {
				r.CTForm = 5 + tp.G(4) // sloppy parameters, as real clients send them
			}
			r.Coding = []string{"gzip", "", "deflate", "gzip"}[tp.G(4)]
			r.Pretty = tp.Bool()
			r.Size = tp.G(maxSize + 1)
			if tp.Chance(40) {
				r.Size = []int{4096, 5000, 9000}[tp.G(3)] // beyond one bufio buffer of the streaming encoders
			}
			if tp.Chance(8) {
				r.Size = []int{33000, 66000}[tp.G(2)] // beyond the deflate window / 64 KiB
			}
			if tp.Chance(1) {
				r.Size = 1500000 // beyond any megabyte-sized limit somebody might introduce
				if x.Thorough() && tp.Chance(200) {
					r.Size = 12000000
				}
			}
			if tp.Chance(4) {
				r.Size = 1000001 // marker: a small entity plus two megabytes of one character (see runC16)
			}
			r.Seed = tp.G(1 << 20)
			r.BChunks = chunkPlan(tp, tp.Range(1, 3), 97)
			if r.Coding == "gzip" && tp.Chance(120) {
				r.Members = tp.Range(2, 3)
			}
			if r.Coding == "deflate" && tp.Chance(150) {
				r.ZWin = tp.Range(1, 3)
			}
			if tp.Chance(450) {
				r.Fault = []string{"btrunc", "berr", "bhdr", "bflip", "bmislabel", "btrail", "bdouble"}[tp.G(7)]
				r.FaultAt = tp.G(1000)
			}
			reqs = append(reqs, r)
		})
		sc.Clients = append(sc.Clients, reqs)
	})
	if tp.Chance(15) {
		sc.Noise = []int{20, 70, 300}[tp.G(3)]
	}
	sc.Raw = sc.Provider != "lifo" && tp.Chance(120)
	return sc
}

func runC16(x *Ctx) {
	sc := genC16(x)
	x.Res.Scenario = sc
	x.Res.ScenHash = sim.HashString(jsonStr(sc))
	s := x.Sim
	s.Preempt = sc.Preempt
	cfg := &ChainCfg{Provider: sc.Provider, WCap: sc.WCap, RCap: sc.RCap, RawProvider: sc.Raw}
	installProvider(s, cfg)
	restful.DefaultRequestContentType(sc.Default)
	for _, cl := range sc.Clients {
		for _, r := range cl {
			if r.Size >= 1000000 {
				// decoding megabytes in one step, under the race detector, on a loaded machine: not a stall
				s.Stall = 100 * time.Second
			}
		}
	}

	byID := map[int]*c16Req{}
	var all []*c16Req
	for _, cl := range sc.Clients {
		for _, r := range cl {
			byID[r.ID] = r
			all = append(all, r)
			if r.Size == 1000001 {
				// a legal but very repetitive entity: megabytes that compress a thousandfold
				r.value = c16Value(r.Seed, 24, r.Codec)
				r.value.S = strings.Repeat("\u00e9", 1<<20)
			} else {
				r.value = c16Value(r.Seed, r.Size, r.Codec)
			}
		}
	}
	// noise: small well-formed round trips, each with an Accept and a Content-Type spelled as never before,
	// both codecs and all codings in turn; judged like every other well-formed request
	var noise []*c16Req
	for i := 0; i < sc.Noise; i++ {
		r := &c16Req{ID: 30000 + i, Codec: []string{"json", "xml"}[i%2], CTForm: 100, Coding: []string{"", "gzip", "deflate"}[i%3], Size: 24, Seed: 7000 + i, BChunks: []int{64}}
		r.value = c16Value(r.Seed, r.Size, r.Codec)
		byID[r.ID] = r
		all = append(all, r)
		noise = append(noise, r)
	}
	if sc.Noise > 0 {
		x.Count("reach:aged-container")
		x.CountN("aging-requests", sc.Noise)
	}
	c := restful.NewContainer()
	c.EnableContentEncoding(true)
	ws := new(restful.WebService).Path("/e").Produces("application/json", "application/xml").Consumes("application/json", "application/xml", "*/*")
	ws.Route(ws.GET("/produce").To(func(req *restful.Request, resp *restful.Response) {
		r := byID[curReqID()]
		resp.PrettyPrint(r.Pretty)
		resp.WriteEntity(r.value)
	}))
	ws.Route(ws.POST("/consume").To(func(req *restful.Request, resp *restful.Response) {
		r := byID[curReqID()]
		r.ran = true
		v := &c16Entity{}
		r.readErr = req.ReadEntity(v)
		r.got = v
		if r.readErr != nil {
			resp.WriteErrorString(400, "unreadable")
			return
		}
		resp.WriteHeader(204)
	}))
	c.Add(ws)

	// write phase (sequential, by the library's own entity writer, through the compressing writer
	// when a coding is wanted): the response body becomes the request body
	for _, r := range all {
		seqReq = r.ID
		if r.Seed%5 == 0 {
			// before it, the same entity goes to a client that has gone away (every write fails): whatever
			// the writer path keeps of that exchange must not show in the next one
			gw := sim.NewSimWriter(nil)
			gw.FaultMode, gw.FailAt = sim.WFaultFail, 0
			ghdr := map[string]string{"Accept": "application/" + r.Codec}
			if r.Coding != "" {
				ghdr["Accept-Encoding"] = r.Coding
			}
			Serve(c, EntryServeHTTP, gw, NewReq("GET", "/e/produce", ghdr, nil, 0, r.ID))
			x.Count("fault-wfail")
		}
		w := sim.NewSimWriter(nil)
		hdr := map[string]string{"Accept": "application/" + r.Codec}
		if r.CTForm == 100 {
			hdr["Accept"] = fmt.Sprintf("application/%s; v=%d", r.Codec, r.ID)
		}
		if r.Coding != "" {
			hdr["Accept-Encoding"] = r.Coding
		}
		if esc := Serve(c, EntryServeHTTP, w, NewReq("GET", "/e/produce", hdr, nil, 0, r.ID)); esc != nil || w.Status() != 200 {
			x.Violate("write-failed", "request %d: writing the %s entity failed: status %d panic %v", r.ID, r.Codec, w.Status(), esc)
			return
		}
		if got := w.H.Get("Content-Encoding"); got != r.Coding {
			x.Violate("infra-write-coding", "request %d: wanted coding %q got %q", r.ID, r.Coding, got)
			return
		}
		r.body = append([]byte{}, w.Body...)
		r.ct = w.H.Get("Content-Type")
	}
	seqReq = 0

	wellFormed := func(r *c16Req) bool { return r.Fault == "" }
	mustFail := func(r *c16Req) bool {
		switch r.Fault {
		case "btrunc", "berr", "bhdr":
			return true
		case "bmislabel":
			return true
		}
		return false
	}
	serveOne := func(t *sim.Task, r *c16Req) {
		count := func(k string) {
			if t != nil {
				t.Count(k)
			} else {
				x.Count(k)
			}
		}
		{
			{
				if t != nil {
					t.Req = r.ID
					var f uint64
					if r.Fault != "" {
						f = 1
					}
					t.Yield(sim.SiteStart, sim.KNote, uint64(r.ID), f)
				} else {
					seqReq = r.ID
				}
				data := append([]byte{}, r.body...)
				if r.Members > 1 {
					// the same entity compressed piecewise: a well-formed gzip body
					if plain, err := Decode("gzip", data); err == nil && len(plain) >= r.Members {
						data = nil
						for m := 0; m < r.Members; m++ {
							data = append(data, Gzip(plain[m*len(plain)/r.Members:(m+1)*len(plain)/r.Members])...)
						}
						count("gzip-bodies-in-several-members")
					}
				}
				if r.ZWin > 0 && r.Coding == "deflate" && len(data) > 2 {
					if plain, err := Decode("deflate", data); err == nil && len(plain) <= 4000 {
						hd := [][2]byte{{0x68, 0x81}, {0x58, 0x85}, {0x48, 0x89}}[r.ZWin-1]
						data[0], data[1] = hd[0], hd[1]
						count("zlib-bodies-declaring-a-smaller-window")
					}
				}
				if r.Fault == "btrail" {
					// more data behind the first document (a second document, or junk): whatever the reader
					// makes of this request, nothing of it may reach a later one
					plain, err := Decode(r.Coding, data)
					if err == nil {
						trail := []string{`{"name":"intruder","count":666,"items":["x"]}`, `<entity><name>intruder</name><count>666</count></entity>`, "}]>>", "\n\n 12345 "}[r.FaultAt%4]
						plain = append(plain, trail...)
						switch r.Coding {
						case "gzip":
							data = Gzip(plain)
						case "deflate":
							data = Zlib(plain)
						default:
							data = plain
						}
					}
					count("fault-btrail")
				}
				b := &sim.SimBody{T: t, Data: data, Chunks: scaleChunks(r.BChunks, len(data), 300)}
				hdr := map[string]string{}
				switch r.CTForm {
				case 0:
					hdr["Content-Type"] = r.ct
				case 1:
					hdr["Content-Type"] = r.ct + "; charset=utf-8"
				case 2:
					hdr["Content-Type"] = r.ct + ";charset=UTF-8; boundary=x"
				case 5:
					hdr["Content-Type"] = r.ct + "; charset="
				case 6:
					hdr["Content-Type"] = r.ct + "; charset"
				case 7:
					hdr["Content-Type"] = r.ct + "; charset=utf-8; profile=http://example.org/p q"
				case 8:
					hdr["Content-Type"] = r.ct + "; charset=utf-8, " + r.ct + "; charset=utf-8" // a duplicated header folded by a proxy
				case 100:
					hdr["Content-Type"] = fmt.Sprintf("%s; charset=UTF-8; v=%d", r.ct, r.ID) // a spelling no earlier request used
				case 4:
					hdr["Content-Type"] = r.ct + " ; charset=utf-8" // optional whitespace before the parameter
				case 3:
					// no Content-Type: only readable when the default request content type names this codec
					if sc.Default == "application/"+r.Codec {
						// leave empty
					} else {
						hdr["Content-Type"] = r.ct
					}
				}
				if r.Coding != "" {
					hdr["Content-Encoding"] = r.Coding
				}
				limit := len(data) * 3 / 4
				if r.Coding != "" {
					limit = len(data) - 24
				}
				if limit < 1 {
					limit = 1
				}
				at := r.FaultAt * limit / 1000
				switch r.Fault {
				case "btrunc":
					b.Mode, b.FaultAt = sim.BFaultTrunc, at
					count("fault-btrunc")
				case "berr":
					b.Mode, b.FaultAt = sim.BFaultErr, at
					count("fault-berr")
				case "bflip":
					if len(data) > 0 {
						data[at%len(data)] ^= 1 << uint(r.FaultAt%8)
					}
					count("fault-bflip")
				case "bhdr":
					// destroy the coding's header; for an uncoded body, destroy the first syntax byte
					if len(data) > 0 {
						data[0] ^= 0xff
					}
					count("fault-bhdr")
				case "bdouble":
					// coded twice and declared so ("gzip, gzip", legal per RFC 9110 8.4): the statement promises
					// nothing for a list of codings - an error or the right value, never a panic, never an effect
					// on a later request
					if r.Coding == "gzip" {
						data = Gzip(data)
						b.Data, b.Chunks = data, scaleChunks(r.BChunks, len(data), 300)
						hdr["Content-Encoding"] = "gzip, gzip"
						count("fault-bdouble")
					}
				case "bmislabel":
					// declare a coding the body does not have
					if r.Coding == "" {
						hdr["Content-Encoding"] = []string{"gzip", "deflate"}[r.FaultAt%2]
					} else if r.Coding == "gzip" {
						hdr["Content-Encoding"] = "deflate"
					} else {
						hdr["Content-Encoding"] = "gzip"
					}
					count("fault-bmislabel")
				}
				w := sim.NewSimWriter(t)
				r.escaped = Serve(c, EntryServeHTTP, w, NewReq("POST", "/e/consume", hdr, b, int64(len(data)), r.ID))
				r.wstatus = w.Status()
				if t != nil {
					t.Yield(sim.SiteCheckpoint, sim.KCheckpoint, 0, 0)
				} else {
					seqReq = 0
				}
			}
		}
	}
	// the long-lived server: the noise round trips are read back first, one after the other
	for _, r := range noise {
		serveOne(nil, r)
	}
	for ci, cl := range sc.Clients {
		cl := cl
		s.Go(fmt.Sprintf("client%d", ci), func(t *sim.Task) {
			for _, r := range cl {
				serveOne(t, r)
			}
		})
	}
	if !s.Run() {
		return
	}
	s.MergeCounts()
	checkNoEscapes(x, s)
	faults := 0
	for _, r := range all {
		what := fmt.Sprintf("request %d (%s, Content-Encoding %q, spelling %d, pretty=%v, %d body bytes in chunks %v, fault %q@%d‰)", r.ID, r.Codec, r.Coding, r.CTForm, r.Pretty, len(r.body), r.BChunks, r.Fault, r.FaultAt)
		if r.escaped != nil {
			x.Violate("panic-while-reading", "%s: panic %v", what, r.escaped)
			continue
		}
		if !r.ran {
			x.Violate("infra-consumer-not-run", "%s: status %d", what, r.wstatus)
			continue
		}
		if r.Fault != "" {
			faults++
		}
		if wellFormed(r) {
			if r.readErr != nil {
				x.Violate("well-formed-rejected", "%s: ReadEntity returned %v", what, r.readErr)
				continue
			}
			want, got := r.value.normalise(), r.got.normalise()
			if !reflect.DeepEqual(want, got) {
				x.Violate("round-trip-differs", "%s: read back %s, written %s", what, clip(jsonStr(got), 400), clip(jsonStr(want), 400))
			}
			continue
		}
		if r.Fault == "bdouble" && r.readErr == nil {
			if want, got := r.value.normalise(), r.got.normalise(); !reflect.DeepEqual(want, got) {
				x.Violate("round-trip-differs", "%s: a body coded twice was read without error as %s, written %s", what, clip(jsonStr(got), 300), clip(jsonStr(want), 300))
			}
		}
		if mustFail(r) && r.readErr == nil {
			// a damaged first byte of an uncoded XML document can still be a document (leading text is skipped)
			if r.Fault == "bhdr" && r.Coding == "" {
				continue
			}
			x.Violate("broken-body-accepted", "%s: ReadEntity returned no error", what)
		}
	}
	for _, e := range s.Events() {
		if e.Kind == "use-after-release" {
			x.Violate("use-after-release", "request %d: a released %s was used without being acquired and Reset again", e.Req, e.S)
		}
	}
	// reach probe, by construction rather than by object identity (addresses are reused after GC, which
	// made an identity-based probe differ between executions of the same tape): with a provider that
	// keeps released readers, a gzip request that follows a faulted gzip request of the same client
	// gets the reader the faulted one left behind
	if sc.Provider == "lifo" || (sc.Provider == "bounded" && sc.RCap >= 1) {
		for _, cl := range sc.Clients {
			dirty := false
			for _, r := range cl {
				if r.Coding == "gzip" && dirty && r.Fault == "" {
					s.Counts["reach:pooled-reader-reused-after-failed-body"] = 1
				}
				if r.Coding == "gzip" && r.Fault != "" {
					dirty = true
				}
			}
		}
	}
	x.Res.Nontrivial = faults > 0 && len(all) >= 2
}
