package props

import (
	"fmt"
	restful "github.com/emicklei/go-restful/v3"
	"strings"

	"restsim/sim"
)

func init() {
	register(&PropInfo{ID: "C11", Run: runC11, UseRace: false, Level: "exploration"})
}

type c11Scen struct {
	Router      string      `json:"router"`
	Filters     int         `json:"container_filters"`
	Svcs        []SvcSpec   `json:"services"`
	Plains      []PlainSpec `json:"plain_handlers"`
	Ops         []AdminOp   `json:"history"`
	EveryPrefix bool        `json:"probe_after_every_prefix"`
	NoTrim      bool        `json:"trim_right_slash_off,omitempty"`
	Options     bool        `json:"options_filter,omitempty"` // Container.OPTIONSFilter installed; OPTIONS probes after every operation
	// Traffic: requests (indices into the probe list) served by a second task while the history is
	// applied; their answers are not judged here (C12 does that), but nothing they leave behind may
	// change what the container answers afterwards
	Traffic []int `json:"traffic_during_history,omitempty"`
	Preempt int   `json:"preempt_permille,omitempty"`
	// Crowd: the last so many services (roots /m<k>, one route each) exist beside the others: the history
	// starts by adding all of them and removing a part again, so the number of registered services
	// crosses 8, 16, 32 upwards and downwards before the generated operations begin
	Crowd int `json:"crowd_services,omitempty"`
}

var c11Roots = []string{"/a", "/b", "/a/{v}", "/", "/a/", "/a/b", "/ab", "/{v}", "/a/{v}/x", "/a/{v}/y", "/users/{id}/a", "/users/{id}/b"}

// the last one: below root /a its relative path is the full path of another route (/a/x)
var c11Subs = []string{"/x", "/{id}", "", "/x/{id}", "/y", "/{id}:go", "/a/x"}
var c11Plain = []string{"/static/", "/h", "/h2/"}

func genC11(x *Ctx) *c11Scen {
	tp := x.Tape
	sc := &c11Scen{}
	sc.Router = []string{"curly", "jsr311"}[tp.G(2)]
	sc.Filters = tp.G(2)
	sc.NoTrim = tp.Chance(120)
	perm := tp.Perm(len(c11Roots))
	rid := 0
	pairSvc, pairA, pairB := -1, 0, 0 // a service with a route pair (relative path of B = full path of A)
	maxSvcs, moreSvcs := 5, 600
	if tp.Chance(80) {
		maxSvcs, moreSvcs = 11, 900 // many services: more mux patterns and more candidates than any small fixed capacity
	}
	tp.Repeat(2, maxSvcs, moreSvcs, func(i int) {
		sp := SvcSpec{ID: i, Root: c11Roots[perm[i]], Dynamic: true}
		// distinct (method, path) pairs: the same path may carry several methods
		pairs := tp.Perm(2 * len(c11Subs))
		tp.Repeat(1, 4, 550, func(k int) {
			rid++
			r := RouteSpec{ID: rid, Method: []string{"GET", "POST"}[pairs[k]%2], Path: c11Subs[pairs[k]/2]}
			if r.Method == "POST" && tp.Chance(60) {
				// an extension method, spelled the way the application spells it (method tokens are case-sensitive)
				r.Method = []string{"purge", "Report"}[tp.G(2)]
			}
			sp.Routes = append(sp.Routes, r)
			if !sc.NoTrim && r.Path != "" && !strings.HasSuffix(r.Path, ":go") && tp.Chance(60) {
				// the same method on the same path with a trailing slash: another route (RemoveRoute takes one)
				rid++
				sp.Routes = append(sp.Routes, RouteSpec{ID: rid, Method: r.Method, Path: r.Path + "/", SlashTwin: true})
				return
			}
			if tp.Chance(150) {
				// the same method and path again with another representation: legal, and one RemoveRoute
				// call removes both
				rid++
				r.Produces = []string{"application/json"}
				sp.Routes[len(sp.Routes)-1] = r
				sp.Routes = append(sp.Routes, RouteSpec{ID: rid, Method: r.Method, Path: r.Path, Produces: []string{"application/xml"}})
			}
		})
		if r0 := sp.Routes[0]; !strings.Contains(sp.Root, "{") && len(sp.Root) > 1 && r0.Path != "" && !strings.HasSuffix(r0.Path, "/") && tp.Chance(40) {
			// a second route whose relative path spells out the first one's full path (/a/x below root /a):
			// two routes that share nothing but that spelling
			rid++
			sp.Routes = append(sp.Routes, RouteSpec{ID: rid, Method: r0.Method, Path: strings.TrimRight(sp.Root, "/") + r0.Path})
			pairSvc, pairA, pairB = i, r0.ID, rid
		}
		sp.Repath = tp.Chance(150)
		sc.Svcs = append(sc.Svcs, sp)
	})
	nSvc := len(sc.Svcs)
	nPlain := tp.G(3)
	pp := tp.Perm(len(c11Plain))
	for i := 0; i < nPlain; i++ {
		sc.Plains = append(sc.Plains, PlainSpec{ID: i, Pattern: c11Plain[pp[i]], WithFilter: tp.Bool()})
	}
	maxOps := 12
	if x.Thorough() {
		maxOps = 30
		sc.EveryPrefix = true
	}
	member := map[int]bool{}
	present := map[int]bool{}
	handled := map[int]bool{}
	tp.Repeat(1, maxOps, 880, func(int) {
		sid := tp.G(nSvc)
		sp := sc.Svcs[sid]
		switch tp.G(8) {
		case 0, 1, 2:
			if !member[sid] {
				sc.Ops = append(sc.Ops, AdminOp{Kind: "add", Svc: sid})
				member[sid] = true
			} else {
				sc.Ops = append(sc.Ops, AdminOp{Kind: "remove", Svc: sid})
				member[sid] = false
			}
		case 3:
			sc.Ops = append(sc.Ops, AdminOp{Kind: "remove", Svc: sid})
			member[sid] = false
		case 4, 5:
			r := sp.Routes[tp.G(len(sp.Routes))]
			if present[r.ID] {
				sc.Ops = append(sc.Ops, AdminOp{Kind: "unroute", Svc: sid, Route: r.ID})
				for _, o := range sp.Routes {
					if o.Method == r.Method && o.Path == r.Path {
						present[o.ID] = false
					}
				}
			} else {
				sc.Ops = append(sc.Ops, AdminOp{Kind: "route", Svc: sid, Route: r.ID})
				present[r.ID] = true
			}
		case 6, 7:
			if len(sc.Plains) == 0 {
				return
			}
			p := sc.Plains[tp.G(len(sc.Plains))]
			if handled[p.ID] {
				// registering the same pattern again panics by contract; the caller recovers and the
				// container must be exactly as before
				sc.Ops = append(sc.Ops, AdminOp{Kind: "handle-dup", Plain: p.ID})
				return
			}
			handled[p.ID] = true
			kind := "handle"
			if p.WithFilter {
				kind = "handlef"
			}
			sc.Ops = append(sc.Ops, AdminOp{Kind: kind, Plain: p.ID})
		}
	})
	if pairSvc >= 0 {
		// the pair is registered before the generated history starts and the first of the two is removed
		// at its end, whatever else happens in between
		pre := []AdminOp{{Kind: "route", Svc: pairSvc, Route: pairA}, {Kind: "route", Svc: pairSvc, Route: pairB}, {Kind: "add", Svc: pairSvc}}
		var mid []AdminOp
		for _, o := range sc.Ops {
			if (o.Kind == "route" || o.Kind == "unroute") && (o.Route == pairA || o.Route == pairB) {
				continue // the pair is not touched in between
			}
			if (o.Kind == "add" || o.Kind == "remove") && o.Svc == pairSvc {
				continue // nor is its service
			}
			mid = append(mid, o)
		}
		sc.Ops = append(append(pre, mid...), AdminOp{Kind: "unroute", Svc: pairSvc, Route: pairA})
	}
	if tp.Chance(14) {
		sc.Crowd = []int{9, 14, 17, 24, 40}[tp.G(5)]
		var pre []AdminOp
		for k := 0; k < sc.Crowd; k++ {
			rid++
			id := len(sc.Svcs)
			sc.Svcs = append(sc.Svcs, SvcSpec{ID: id, Root: fmt.Sprintf("/m%d", k), Dynamic: true, Routes: []RouteSpec{{ID: rid, Method: "GET", Path: "/x"}}})
			pre = append(pre, AdminOp{Kind: "add", Svc: id})
		}
		// some of them leave again, in a tape-chosen order
		gone := tp.Perm(sc.Crowd)
		for _, k := range gone[:tp.Range(sc.Crowd/2, sc.Crowd)] {
			pre = append(pre, AdminOp{Kind: "remove", Svc: nSvc + k})
		}
		sc.Ops = append(pre, sc.Ops...)
	}
	if tp.Chance(25) && len(sc.Ops) > 0 {
		// the long-lived server: hundreds of requests to different URLs between two registration changes
		ns := []int{40, 140, 300, 560}
		if x.Thorough() {
			ns = append(ns, 1100)
		}
		at := tp.G(len(sc.Ops))
		ops := append([]AdminOp{}, sc.Ops[:at]...)
		b := AdminOp{Kind: "burst", N: ns[tp.G(len(ns))]}
		if nx := sc.Ops[at]; tp.Chance(750) && (nx.Kind == "route" || nx.Kind == "unroute" || nx.Kind == "add" || nx.Kind == "remove") {
			b.Focus = nx.Svc + 1
		}
		ops = append(ops, b)
		sc.Ops = append(ops, sc.Ops[at:]...)
	}
	if tp.Chance(80) {
		sc.Options = true
		sc.EveryPrefix = true // the same OPTIONS request before and after a route change
	}
	if tp.Chance(300) {
		probes := c11Probes(sc)
		np := len(probes)
		var routeOps []AdminOp
		for _, o := range sc.Ops {
			if o.Kind == "route" || o.Kind == "unroute" {
				routeOps = append(routeOps, o)
			}
		}
		tp.Repeat(2, 10, 800, func(int) {
			pick := tp.G(np)
			if len(routeOps) > 0 && tp.Chance(700) {
				// a request for a route the history adds or removes: the answer it computes is about to change
				o := routeOps[tp.G(len(routeOps))]
				sp := sc.Svcs[o.Svc]
				for _, r := range sp.Routes {
					if r.ID == o.Route {
						want := Probe{Method: r.Method, Path: instantiate(FullPath(sp.Root, r.Path), tp.G(2))}
						for i, p := range probes {
							if p.Method == want.Method && p.Path == want.Path && p.Accept == "" {
								pick = i
								break
							}
						}
					}
				}
			}
			sc.Traffic = append(sc.Traffic, pick)
		})
		sc.Preempt = []int{400, 150, 700}[tp.G(3)]
	}
	return sc
}

func c11Probes(sc *c11Scen) []Probe {
	seen := map[string]bool{}
	var out []Probe
	withAccept := false // only tables with several representations of one route need Accept variants
	for _, sp := range sc.Svcs {
		for _, r := range sp.Routes {
			if len(r.Produces) > 0 {
				withAccept = true
			}
		}
	}
	add := func(m, p string) {
		if p == "" {
			p = "/"
		}
		k := m + " " + p
		if !seen[k] {
			seen[k] = true
			out = append(out, Probe{Method: m, Path: p})
			if withAccept {
				out = append(out, Probe{Method: m, Path: p, Accept: "application/xml"})
			}
		}
	}
	for _, sp := range sc.Svcs {
		for _, r := range sp.Routes {
			if sc.Options {
				add("OPTIONS", instantiate(FullPath(sp.Root, r.Path), 0))
			}
			for v := 0; v < 2; v++ {
				full := instantiate(FullPath(sp.Root, r.Path), v)
				segs := strings.Split(strings.Trim(full, "/"), "/")
				for k := 1; k <= len(segs); k++ {
					p := "/" + strings.Join(segs[:k], "/")
					add("GET", p)
					add("GET", p+"/")
					add("POST", p)
					if r.Method != "GET" && r.Method != "POST" {
						add(r.Method, p)
					}
				}
				add("GET", full+"/extra")
			}
		}
	}
	add("GET", "/")
	add("GET", "/zzz")
	for _, pl := range sc.Plains {
		add("GET", pl.Pattern)
		add("GET", pl.Pattern+"f")
		add("GET", strings.TrimRight(pl.Pattern, "/"))
	}
	return out
}

func runC11(x *Ctx) {
	sc := genC11(x)
	restful.TrimRightSlashEnabled = !sc.NoTrim
	x.Res.Scenario = sc
	x.Res.ScenHash = sim.HashString(jsonStr(sc))
	s := x.Sim
	w := &World{Svcs: sc.Svcs, Router: sc.Router, Filters: sc.Filters, Plains: sc.Plains, Options: sc.Options}
	w.index()
	init := RegState{Routes: map[int][]int{}, Twins: map[int][]int{}}
	for i, sp := range sc.Svcs {
		init.Routes[sp.ID] = []int{}
		if i >= len(sc.Svcs)-sc.Crowd {
			init.Routes[sp.ID] = []int{sp.Routes[0].ID} // crowd services come with their route
		}
		for _, a := range sp.Routes {
			for _, b := range sp.Routes {
				if a.Method == b.Method && a.Path == b.Path {
					init.Twins[a.ID] = append(init.Twins[a.ID], b.ID)
				}
			}
		}
	}
	w.Start(init)
	probes := c11Probes(sc)
	w.BurstProbes = probes
	for _, op := range sc.Ops {
		if op.Kind == "burst" {
			s.MaxSteps += 12 * (op.N + len(probes))
		}
	}
	ref := NewReference(w)
	type mismatch struct {
		after int
		entry int
		p     Probe
		got   Outcome
	}
	var got []mismatch
	var states []RegState
	st := init
	compared := 0
	callerDone := false
	// the crowd's arrival and partial departure at the start of the history is probed once, at its end
	crowdPre := 0
	for crowdPre < len(sc.Ops) && sc.Crowd > 0 && sc.Ops[crowdPre].Svc >= len(sc.Svcs)-sc.Crowd && (sc.Ops[crowdPre].Kind == "add" || sc.Ops[crowdPre].Kind == "remove") {
		crowdPre++
	}
	s.Go("caller", func(t *sim.Task) {
		for i, op := range sc.Ops {
			t.Ev("op", op.String(), i)
			w.Do(op)
			if i == len(sc.Ops)-1 {
				callerDone = true
			}
			t.Y(sim.SiteAdminPost)
			if (sc.EveryPrefix && i >= crowdPre-1) || i == len(sc.Ops)-1 {
				for _, p := range probes {
					for entry := 0; entry < 2; entry++ {
						got = append(got, mismatch{after: i, entry: entry, p: p, got: ServeProbe(w.C, entry, p, nil, 0)})
					}
				}
			}
		}
	})
	if len(sc.Traffic) > 0 {
		s.Preempt = sc.Preempt
		s.Go("traffic", func(t *sim.Task) {
			// the list is repeated until the history is complete (bounded), so that the last operations
			// have requests in flight too
			for k := 0; k < 60 && (k < len(sc.Traffic) || !callerDone); k++ {
				t.Req = 1000 + k
				ServeProbe(w.C, k%2, probes[sc.Traffic[k%len(sc.Traffic)]], t, 1000+k)
				t.Y(sim.SiteCheckpoint)
			}
		})
	}
	for _, op := range sc.Ops {
		st = st.Apply(op)
		states = append(states, st)
	}
	if !s.Run() {
		return
	}
	for _, t := range s.Tasks {
		if t.Escaped != nil {
			ev := ""
			if n := len(t.Log); n > 0 {
				ev = t.Log[n-1].S
			}
			x.Violate("registration-panic", "history %v: operation %s panicked: %v", opsString(sc.Ops), ev, t.Escaped)
			return
		}
	}
	for _, g := range got {
		want := ref.Outcome(states[g.after], g.entry, g.p)
		compared++
		if want.Key() != g.got.Key() {
			x.Violate("differs-from-fresh", "after history %v: %s %s via %s answered %s, a fresh container holding the same services, routes and handlers answers %s",
				opsString(sc.Ops[:g.after+1]), g.p.Method, g.p.Path, entryName(g.entry), g.got.Key(), want.Key())
			break
		}
	}
	x.CountN("probe-comparisons", compared)
	removes := 0
	for _, op := range sc.Ops {
		if op.Kind == "remove" || op.Kind == "unroute" {
			removes++
		}
		if op.Kind == "burst" {
			x.Count("reach:burst-of-distinct-urls")
			x.CountN("burst-requests", op.N)
		}
	}
	x.Res.Nontrivial = removes > 0 && len(sc.Ops) >= 3
	if removes > 0 {
		x.Count("reach:history-with-removal")
	}
	// the schedule is trivial here; distinctness is over histories
	if len(sc.Traffic) == 0 {
		x.Res.TraceHash = sim.HashString(opsString(sc.Ops))
	} else if s.Counts["preemptions"] > 0 {
		x.Count("reach:traffic-interleaved-with-history")
	}
}

func opsString(ops []AdminOp) string {
	var parts []string
	for _, o := range ops {
		parts = append(parts, o.String())
	}
	return fmt.Sprint(parts)
}
