package props

import (
	"context"
	"fmt"
	"net/http"
	"sort"
	"strings"

	restful "github.com/emicklei/go-restful/v3"

	"restsim/sim"
)

func init() {
	register(&PropInfo{ID: "C19", Run: runC19, UseRace: true, Level: "exploration"})
}

type c19Req struct {
	Spec     int    `json:"spec"`
	Shape    int    `json:"shape"`
	CTParam  string `json:"content_type_parameter,omitempty"`
	Method   string `json:"method"`
	Path     string `json:"path"`
	Tok      string `json:"tok"`
	Origin   string `json:"origin,omitempty"`
	ACRM     string `json:"acrm,omitempty"`
	ACRH     string `json:"acrh,omitempty"`
	AE       string `json:"accept_encoding,omitempty"`
	Accept   string `json:"accept,omitempty"`
	Body     bool   `json:"body,omitempty"`
	BodyEnc  string `json:"body_content_encoding,omitempty"` // the POST entity is sent gzip- or deflate-coded
	Form     bool   `json:"form_body,omitempty"`             // application/x-www-form-urlencoded body read with BodyParameter
	NoCT     bool   `json:"no_content_type,omitempty"`       // POST without a Content-Type (route allows that)
	CancelRd int    `json:"context_cancelled_at_body_read,omitempty"`
}

type c19Scen struct {
	Router        string   `json:"router"`
	Trace         bool     `json:"trace_in_concurrent_phase"`
	RouterHistory bool     `json:"router_set_twice"`                     // the serving containers first get the other router, then the final one; the reference gets it once
	Helpers       bool     `json:"assembled_with_package_level_helpers"` // restful.Add / restful.Filter / restful.OPTIONSFilter on DefaultContainer
	Enc           bool     `json:"encoding"`
	CORS          int      `json:"cors"` // 0 none, 1 computed methods, 2 configured methods
	Options       bool     `json:"options_filter"`
	NC            int      `json:"container_filters"`
	NS            int      `json:"service_filters"`
	NR            int      `json:"route_filters"`
	Entry         string   `json:"entry"`
	Preempt       int      `json:"preempt_permille"`
	Specs         []c19Req `json:"request_specs"`
	Order         []int    `json:"sequential_order"`
	Clients       [][]int  `json:"clients"`
	Gone          [][]int  `json:"client_gone_at_write"` // per client and request: k>0 = the writer fails from write #k-1 on
	// Age: the long-lived server. The sequential history is continued (cycling through sequential_order)
	// until Age requests have been answered on the one container, and the container of the concurrent
	// phase answers as many before its clients start: "the first or the thousandth".
	Age   int `json:"aged_by_requests,omitempty"`
	entry int
}

var c19Shapes = []struct{ m, p string }{
	{"GET", "/u/%s"}, {"GET", "/u/%s/sub/k%s"}, {"POST", "/u/%s"}, {"GET", "/v/t%s/items/%s"}, {"PUT", "/u/%s"},
	{"GET", "/nowhere/%s"}, {"GET", "/u/doc/%s.json"}, {"GET", "/u/num/x%sy"}, {"UNLOCK", "/many/%s"}, {"COPY", "/many/%s"}, {"OPTIONS", "/u/%s"}, {"OPTIONS", "/v/t%s/items/%s"}, {"DELETE", "/v/t%s/items/%s"},
	{"GET", "/s/plain"}, {"GET", "/s/other"}, {"GET", "/s/stream"}, {"GET", "/s/raw"},
	// URL forms a real client can send: an escaped slash inside a segment, an empty segment, a trailing slash, HEAD
	{"GET", "/u/%s%%2Fsub/k%s"}, {"GET", "/u//%s"}, {"GET", "/u/%s/"}, {"HEAD", "/u/%s"}, {"HEAD", "/many/%s"}, {"POST", "/x/form/%s"}, {"POST", "/x/nct/%s"}, {"GET", "/x/err/%s"}, {"POST", "/x/job/%s:cancel"}, {"GET", "/x/job/%s:cancel"}, {"GET", "/x/job/%s"},
}

func c19Path(shape int, tok string) string {
	sh := c19Shapes[shape]
	p := fmt.Sprintf(sh.p, tok, tok)
	switch strings.Count(sh.p, "%s") {
	case 1:
		p = fmt.Sprintf(sh.p, tok)
	case 0:
		p = sh.p
	}
	return p + "?q=" + tok
}

// noise: the same kind of request from another client, every input spelled in a way never seen before
// (token in path and query, parameters on Accept and Content-Type, an unknown coding beside the accepted
// ones, another origin). Its answer is not judged; what it leaves behind must not show anywhere.
func (r c19Req) noise(n int) c19Req {
	r.Tok = fmt.Sprintf("N%dx", n)
	r.Path = c19Path(r.Shape, r.Tok)
	switch {
	case r.Accept == "*/*":
		r.Accept = fmt.Sprintf("*/*;q=0.%d", n+1)
	case r.Accept != "":
		r.Accept = fmt.Sprintf("%s; v=%d", r.Accept, n)
	case n%3 == 0:
		r.Accept = fmt.Sprintf("application/json; v=%d", n)
	}
	if r.AE != "" {
		r.AE = fmt.Sprintf("%s, x-n%d", r.AE, n)
	}
	if r.Body && !r.Form {
		r.CTParam = fmt.Sprintf("; v=%d", n)
	}
	if r.Origin != "" && n%2 == 0 {
		r.Origin = fmt.Sprintf("http://n%d.example", n)
	}
	r.CancelRd = 0
	return r
}

func genC19(x *Ctx) *c19Scen {
	tp := x.Tape
	sc := &c19Scen{}
	sc.Router = []string{"curly", "jsr311"}[tp.G(2)]
	sc.Trace = tp.Bool()
	sc.RouterHistory = tp.Chance(300)
	sc.Helpers = tp.Chance(250)
	sc.Enc = tp.Bool()
	sc.CORS = tp.G(3)
	sc.Options = tp.Chance(300)
	sc.NC, sc.NS, sc.NR = tp.G(3), tp.G(3), tp.G(3)
	sc.entry = tp.G(2)
	sc.Entry = entryName(sc.entry)
	sc.Preempt = []int{300, 100, 500}[tp.G(3)]
	maxSpecs := 5
	maxTotal := 10
	if x.Thorough() {
		maxSpecs = 8
		maxTotal = 40
	}
	tp.Repeat(2, maxSpecs, 650, func(i int) {
		shape := tp.G(len(c19Shapes))
		sh := c19Shapes[shape]
		tok := fmt.Sprintf("T%dx", i+1)
		r := c19Req{Spec: i, Shape: shape, Method: sh.m, Tok: tok}
		r.Path = c19Path(shape, tok)
		if tp.Chance(500) {
			r.Origin = []string{"http://good.example", "http://evil.example", "HTTP://GOOD.example"}[tp.G(3)]
		}
		if r.Method == "OPTIONS" && tp.Chance(700) {
			r.ACRM = []string{"GET", "POST", "DELETE", "PATCH"}[tp.G(4)]
			r.ACRH = []string{"", "X-Custom", "x-custom, Accept", "X-Other"}[tp.G(4)]
		}
		if sc.Enc {
			r.AE = []string{"gzip", "", "deflate"}[tp.G(3)]
		}
		r.Accept = []string{"", "application/json", "application/xml", "*/*", "text/plain"}[tp.G(5)]
		if tp.Chance(120) {
			// q-values with odd but legal spacing; pairs that differ in blanks only. Every value names
			// application/json cleanly, so the map-ordered fallback of accessorAt is never reached.
			r.Accept = []string{"application/xml ;q=0.9, application/json;q=0.8", "application/xml;q=0.9,application/json;q=0.8", "application/xml; q=0.9, application/json; q=0.8",
				"application/json;q=0.5, application/xml", "application/json;q=0.5,application/xml", "application/xml ; q=0.9 , application/json;q=0.8",
				// q-values that do not parse: whatever the library makes of them, it is the same with tracing on and off
				"application/json, application/xml;q=1e999", "application/xml;q=high, application/json;q=0.5"}[tp.G(8)]
		}
		r.Body = r.Method == "POST"
		if r.Body {
			r.BodyEnc = []string{"gzip", "", "deflate"}[tp.G(3)]
		}
		if r.Body && tp.Chance(150) {
			r.CancelRd = 1 + tp.G(3)
		}
		r.Form = strings.HasPrefix(sh.p, "/x/form/")
		r.NoCT = strings.HasPrefix(sh.p, "/x/nct/")
		sc.Specs = append(sc.Specs, r)
	})
	nSpecs := len(sc.Specs)
	if tp.Chance(50) {
		maxTotal = 48 // a long history on one container: counters, generations, caches that fill up
	}
	nClients := tp.Range(2, 4)
	sc.Clients = make([][]int, nClients)
	sc.Gone = make([][]int, nClients)
	moreReq := 750
	if maxTotal == 48 {
		moreReq = 960
	}
	tp.Repeat(3, maxTotal, moreReq, func(int) {
		sp := tp.G(nSpecs)
		sc.Order = append(sc.Order, sp)
		c := tp.G(nClients)
		sc.Clients[c] = append(sc.Clients[c], sp)
		gone := 0
		if tp.Chance(70) {
			gone = 1 + tp.G(3)
		}
		sc.Gone[c] = append(sc.Gone[c], gone)
	})
	if tp.Chance(15) {
		ages := []int{60, 300, 1100}
		if x.Thorough() {
			ages = append(ages, 3100)
		}
		sc.Age = ages[tp.G(len(ages))]
	}
	return sc
}

type c19Echo struct {
	Route  string `json:"route" xml:"route"`
	Params string `json:"params" xml:"params"`
	Q      string `json:"q" xml:"q"`
	Attrs  string `json:"attrs" xml:"attrs"`
	Ent    string `json:"ent" xml:"ent"`
	Sel    string `json:"sel" xml:"sel"` // what the RouteReader of the selected route reports
	Hdr    string `json:"hdr" xml:"hdr"`
}

func c19Build(sc *c19Scen) *restful.Container { return c19BuildH(sc, false) }

// c19BuildH: with history the router is set twice; only the last setting is configuration.
func c19BuildH(sc *c19Scen, history bool) *restful.Container {
	c := restful.NewContainer()
	if history && sc.RouterHistory {
		if sc.Router == "jsr311" {
			c.Router(restful.CurlyRouter{})
		} else {
			c.Router(restful.RouterJSR311{})
		}
	}
	if sc.Router == "jsr311" {
		c.Router(restful.RouterJSR311{})
	} else if history && sc.RouterHistory {
		c.Router(restful.CurlyRouter{})
	}
	c.EnableContentEncoding(sc.Enc)
	addFilter, addService := c.Filter, func(ws *restful.WebService) { c.Add(ws) }
	optionsFilter := restful.FilterFunction(c.OPTIONSFilter)
	if sc.Helpers {
		// the documented package-level API: everything goes to restful.DefaultContainer
		restful.DefaultContainer = c
		addFilter, addService = restful.Filter, restful.Add
		optionsFilter = restful.OPTIONSFilter()
	}
	if sc.CORS > 0 {
		cors := restful.CrossOriginResourceSharing{
			AllowedDomains: []string{"http://good.example"}, AllowedHeaders: []string{"X-Custom", "Accept"}, ExposeHeaders: []string{"X-Exposed"},
			CookiesAllowed: true, MaxAge: 60, Container: c}
		if sc.CORS == 2 {
			cors.AllowedMethods = []string{"GET", "POST"}
		}
		if sc.Helpers {
			cors.Container = nil // the filter then asks the default container
		}
		addFilter(cors.Filter)
	}
	if sc.Options {
		addFilter(optionsFilter)
	}
	mkf := func(level string, i int) restful.FilterFunction {
		name := fmt.Sprintf("%s%d", level, i)
		return func(req *restful.Request, resp *restful.Response, chain *restful.FilterChain) {
			y(sim.SiteFilterPre)
			// the attribute carries the request's own token: a leak between requests shows in the echo
			prev, _ := req.Attribute("trail").(string)
			req.SetAttribute("trail", prev+name+":"+req.QueryParameter("q")+";")
			resp.AddHeader("X-Seen-"+name, req.QueryParameter("q"))
			// the route the filter sees selected: the request's own, or none when routing failed
			resp.AddHeader("X-Sel-"+name, req.SelectedRoutePath())
			// a filter may publish a value as a path parameter (the map is handed out by reference): it
			// belongs to this request alone
			req.PathParameters()["via-"+name+"-"+req.QueryParameter("q")] = "1"
			chain.ProcessFilter(req, resp)
			y(sim.SiteFilterPost)
		}
	}
	for i := 0; i < sc.NC; i++ {
		addFilter(mkf("c", i))
	}
	echo := func(req *restful.Request, resp *restful.Response) {
		y(sim.SiteHandler)
		trail, _ := req.Attribute("trail").(string)
		e := c19Echo{Route: req.SelectedRoutePath(), Params: kv(req.PathParameters()), Q: req.QueryParameter("q"), Attrs: trail}
		if sr := req.SelectedRoute(); sr != nil {
			// declared properties of the selected route as the handler sees them: configuration, so the
			// same for every request to this route whatever was served before
			e.Sel = fmt.Sprint(sr.Method(), " ", sr.Path(), " consumes=", sr.Consumes(), " deprecated=", sr.Deprecated(), " meta=", len(sr.Metadata()))
		}
		e.Hdr = req.HeaderParameter("X-Sim-Tok")
		if req.Request.Method == "POST" && strings.HasPrefix(req.HeaderParameter("Content-Type"), "application/x-www-form-urlencoded") {
			f, err := req.BodyParameter("f")
			e.Ent = fmt.Sprint("form:", f, " err=", err, " q=", req.QueryParameters("q"), " id=", req.PathParameter("id"))
		} else if req.Request.Method == "POST" {
			// the entity carries the request's own token: a body decoded through another request's
			// decompressor shows in the echo
			var ent struct{ Tok string }
			if err := req.ReadEntity(&ent); err != nil {
				e.Ent = "unreadable"
			} else {
				e.Ent = ent.Tok
			}
		}
		y(sim.SiteHandler)
		if strings.HasSuffix(req.QueryParameter("q"), "2x") || strings.HasSuffix(req.QueryParameter("q"), "4x") {
			resp.PrettyPrint(false) // some handlers answer in the compact form
		}
		resp.WriteEntity(e)
	}
	mk := func(ws *restful.WebService, b *restful.RouteBuilder) {
		b.To(echo)
		for i := 0; i < sc.NR; i++ {
			b.Filter(mkf("r", i))
		}
		ws.Route(b)
	}
	ws1 := new(restful.WebService).Path("/u").Produces("application/json", "application/xml").Consumes("application/json")
	for i := 0; i < sc.NS; i++ {
		ws1.Filter(mkf("s", i))
	}
	mk(ws1, ws1.GET("/{id}"))
	mk(ws1, ws1.GET("/{id}/sub/{k}"))
	mk(ws1, ws1.POST("/{id}"))
	// templates on which the two routers' parameter extraction differs
	mk(ws1, ws1.GET("/doc/{name}.json"))
	mk(ws1, ws1.GET("/num/{id:[0-9]+}"))
	// text/plain has no registered entity writer: negotiation must skip it without touching the list
	ws2 := new(restful.WebService).Path("/v/{tenant}").Produces("text/plain", "application/json")
	mk(ws2, ws2.GET("/items/{id}"))
	mk(ws2, ws2.DELETE("/items/{id}"))
	// one path served under many methods: a wrong method lists more than eight in the Allow header
	ws3 := new(restful.WebService).Path("/many").Produces("application/json")
	for _, m := range []string{"GET", "POST", "PUT", "DELETE", "PATCH", "HEAD", "MKCOL", "COPY", "MOVE", "LOCK", "PROPFIND"} {
		mk(ws3, ws3.Method(m).Path("/{id}"))
	}
	// less travelled corners: form bodies, POST without Content-Type, service errors with headers,
	// custom verbs, the stock no-cache filter
	ws4 := new(restful.WebService).Path("/x").Produces("application/json", "application/xml")
	ws4.Filter(restful.NoBrowserCacheFilter)
	mk(ws4, ws4.POST("/form/{id}").Consumes("application/x-www-form-urlencoded"))
	mk(ws4, ws4.POST("/nct/{id}").Consumes("application/json").AllowedMethodsWithoutContentType([]string{"POST"}))
	berr := ws4.GET("/err/{id}").To(func(req *restful.Request, resp *restful.Response) {
		y(sim.SiteHandler)
		tok := req.QueryParameter("q")
		resp.WriteServiceError(409, restful.NewErrorWithHeader(409, "conflict "+tok+" "+req.PathParameter("id"), http.Header{"X-Err": {tok}}))
	})
	for i := 0; i < sc.NR; i++ {
		berr.Filter(mkf("r", i))
	}
	ws4.Route(berr)
	mk(ws4, ws4.POST("/job/{id}:cancel"))
	mk(ws4, ws4.GET("/job/{id}"))
	// routes without any template variable
	ws5 := new(restful.WebService).Path("/s").Produces("application/json")
	mk(ws5, ws5.GET("/plain"))
	mk(ws5, ws5.GET("/other"))
	// the optional interfaces of the writer: a streaming handler flushes between writes, another one
	// takes the connection over
	bstream := ws5.GET("/stream").To(func(req *restful.Request, resp *restful.Response) {
		y(sim.SiteHandler)
		resp.Write([]byte("first " + req.QueryParameter("q")))
		resp.Flush()
		y(sim.SiteHandler)
		resp.Write([]byte(" second"))
	})
	braw := ws5.GET("/raw").To(func(req *restful.Request, resp *restful.Response) {
		y(sim.SiteHandler)
		conn, _, err := resp.Hijack()
		if err != nil {
			resp.WriteErrorString(500, "no hijack: "+err.Error())
			return
		}
		conn.Write([]byte("raw " + req.QueryParameter("q")))
		conn.Close()
	})
	for i := 0; i < sc.NR; i++ {
		bstream.Filter(mkf("r", i))
		braw.Filter(mkf("r", i))
	}
	ws5.Route(bstream)
	ws5.Route(braw)
	addService(ws1)
	addService(ws2)
	addService(ws3)
	addService(ws4)
	addService(ws5)
	return c
}

func (r *c19Req) serve(c *restful.Container, entry int, t *sim.Task, id int) string {
	s, _ := r.serveGone(c, entry, t, id, 0)
	return s
}

// serveGone: with gone > 0 the client's writer fails from underlying write #gone-1 on.
func (r *c19Req) serveGone(c *restful.Container, entry int, t *sim.Task, id int, gone int) (string, bool) {
	hdr := map[string]string{"X-Sim-Tok": r.Tok}
	if r.Origin != "" {
		hdr["Origin"] = r.Origin
	}
	if r.ACRM != "" {
		hdr["Access-Control-Request-Method"] = r.ACRM
	}
	if r.ACRH != "" {
		hdr["Access-Control-Request-Headers"] = r.ACRH
	}
	if r.AE != "" {
		hdr["Accept-Encoding"] = r.AE
	}
	if r.Accept != "" {
		hdr["Accept"] = r.Accept
	}
	var hr = NewReq(r.Method, r.Path, hdr, nil, 0, id)
	if r.Body {
		hdr["Content-Type"] = "application/json" + r.CTParam
		data := []byte(fmt.Sprintf(`{"Tok":"%s","Pad":"%s"}`, r.Tok, sim.PayloadText(r.Tok, 300)))
		if r.Form {
			hdr["Content-Type"] = "application/x-www-form-urlencoded; charset=utf-8"
			data = []byte("g=1&f=" + r.Tok + "&f=second")
		}
		if r.NoCT {
			delete(hdr, "Content-Type")
		}
		switch r.BodyEnc {
		case "gzip":
			data = Gzip(data)
			hdr["Content-Encoding"] = "gzip"
		case "deflate":
			data = Zlib(data)
			hdr["Content-Encoding"] = "deflate"
		}
		body := &sim.SimBody{T: t, Data: data, Chunks: []int{37, 101}}
		hr = NewReq(r.Method, r.Path, hdr, body, int64(len(data)), id)
		if r.CancelRd > 0 {
			ctx, cancel := context.WithCancel(hr.Context())
			hr = hr.WithContext(ctx)
			k := r.CancelRd
			body.OnRead = func(n int) {
				if n == k {
					cancel()
				}
			}
		}
	}
	w := sim.NewSimWriter(t)
	if gone > 0 {
		w.FaultMode, w.FailAt = sim.WFaultFail, gone-1
	}
	esc := Serve(c, entry, sim.SimFullWriter{SimWriter: w}, hr)
	if w.Fired > 0 && t != nil {
		t.Count("fault-wfail")
	}
	return c19Response(w, esc), w.Fired > 0
}

// c19Response renders everything the framework decides about a response.
func c19Response(w *sim.SimWriter, esc interface{}) string {
	var hs []string
	for k, vs := range w.H {
		hs = append(hs, k+"="+strings.Join(vs, "|"))
	}
	sort.Strings(hs)
	extra := ""
	if w.Flushes > 0 || w.Hijacked {
		extra = fmt.Sprintf(" flushes=%d hijacked=%v conn=%q", w.Flushes, w.Hijacked, w.ConnBytes)
	}
	if w.Hijacked {
		// what the framework tries to write after the take-over is refused by the writer, as by net/http's
		return fmt.Sprintf("status=%d headers=%v%s escaped=%v", w.Status(), hs, extra, esc)
	}
	body, err := Decode(w.H.Get("Content-Encoding"), w.Body)
	if err != nil {
		return fmt.Sprintf("status=%d headers=%v UNDECODABLE %v", w.Status(), hs, err)
	}
	return fmt.Sprintf("status=%d headers=%v body=%q%s escaped=%v", w.Status(), hs, body, extra, esc)
}

func runC19(x *Ctx) {
	sc := genC19(x)
	x.Res.Scenario = sc
	x.Res.ScenHash = sim.HashString(jsonStr(sc))
	s := x.Sim
	s.Preempt = sc.Preempt
	restful.SetCompressorProvider(&sim.LedgerProvider{Inner: restful.NewSyncPoolCompessors(), Sim: s})

	// (R) reference: every request alone on a fresh container, tracing flipped
	restful.EnableTracing(!sc.Trace)
	ref := make([]string, len(sc.Specs))
	for i := range sc.Specs {
		ref[i] = sc.Specs[i].serve(c19Build(sc), sc.entry, nil, i+1)
	}
	// (S) all on one container, sequentially, in the tape-chosen order
	restful.EnableTracing(sc.Trace)
	cs := c19BuildH(sc, true)
	for pos, sp := range sc.Order {
		if got := sc.Specs[sp].serve(cs, sc.entry, nil, 100+pos); got != ref[sp] {
			x.Violate("history-dependent", "sequential history %v, position %d: %s %s answered\n  %s\nalone on a fresh container (tracing flipped) it is answered\n  %s", sc.Order[:pos+1], pos, sc.Specs[sp].Method, sc.Specs[sp].Path, got, ref[sp])
			return
		}
	}
	for pos := len(sc.Order); pos < sc.Age; pos++ {
		sp := sc.Order[pos%len(sc.Order)]
		nz := sc.Specs[sc.Order[(7*pos+3)%len(sc.Order)]].noise(pos)
		nz.serve(cs, sc.entry, nil, 50000+pos)
		if got := sc.Specs[sp].serve(cs, sc.entry, nil, 100+pos); got != ref[sp] {
			x.Violate("history-dependent", "long sequential history (%v repeated), request number %d on this container: %s %s answered\n  %s\nalone on a fresh container (tracing flipped) it is answered\n  %s", sc.Order, pos+1, sc.Specs[sp].Method, sc.Specs[sp].Path, got, ref[sp])
			return
		}
	}
	// (P) all on one container, on concurrent client tasks
	cp := c19BuildH(sc, true)
	for pos := 0; pos < sc.Age; pos++ {
		sp := sc.Order[pos%len(sc.Order)]
		nz := sc.Specs[sc.Order[(7*pos+3)%len(sc.Order)]].noise(sc.Age + pos)
		nz.serve(cp, sc.entry, nil, 50000+pos)
		if got := sc.Specs[sp].serve(cp, sc.entry, nil, 100+pos); got != ref[sp] {
			x.Violate("history-dependent", "request number %d on the container of the concurrent phase (before its clients start): %s %s answered\n  %s\nalone on a fresh container (tracing flipped) it is answered\n  %s", pos+1, sc.Specs[sp].Method, sc.Specs[sp].Path, got, ref[sp])
			return
		}
	}
	if sc.Age > 0 {
		x.Count("reach:aged-container")
		x.CountN("aging-requests", 2*sc.Age)
	}
	got := make([][]string, len(sc.Clients))
	for ci, cl := range sc.Clients {
		ci, cl := ci, cl
		got[ci] = make([]string, len(cl))
		s.Go(fmt.Sprintf("client%d", ci), func(t *sim.Task) {
			for k, sp := range cl {
				t.Req = 1000*ci + k + 1
				t.Y(sim.SiteStart)
				var lost bool
				got[ci][k], lost = sc.Specs[sp].serveGone(cp, sc.entry, t, t.Req, sc.Gone[ci][k])
				if lost {
					got[ci][k] = "" // the client went away: nothing is promised about what it received
				}
				t.Yield(sim.SiteCheckpoint, sim.KCheckpoint, 0, 0)
			}
		})
	}
	ok := s.Run()
	restful.EnableTracing(false)
	if !ok {
		return
	}
	s.MergeCounts()
	checkNoEscapes(x, s)
	for ci, cl := range sc.Clients {
		for k, sp := range cl {
			if got[ci][k] != "" && got[ci][k] != ref[sp] {
				x.Violate("schedule-dependent", "client %d request %d: %s %s served concurrently with others answered\n  %s\nalone on a fresh container (tracing flipped) it is answered\n  %s", ci, k, sc.Specs[sp].Method, sc.Specs[sp].Path, got[ci][k], ref[sp])
			}
		}
	}
	x.Res.Nontrivial = s.Counts["preemptions"] > 0
}
