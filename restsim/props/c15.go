package props

import (
	"bytes"
	"context"
	"encoding/xml"
	"errors"
	"fmt"
	"io"
	"net/http"

	restful "github.com/emicklei/go-restful/v3"

	"restsim/sim"
)

func init() {
	register(&PropInfo{ID: "C15", Run: runC15, UseRace: false, Level: "fault_enumeration"})
}

type c15Entity struct {
	XMLName xml.Name `xml:"entity" json:"-"`
	Name    string   `xml:"name" json:"name"`
	Count   int64    `xml:"count" json:"count"`
	Items   []string `xml:"items>item" json:"items"`
}

type c15Call struct {
	Kind   string `json:"call"`
	Status int    `json:"status,omitempty"`
	N      int    `json:"n,omitempty"` // payload size / entity size knob
	Nil    bool   `json:"nil_value,omitempty"`
}

type c15Scen struct {
	Calls      []c15Call `json:"calls"`
	Accept     string    `json:"accept"`
	Pretty     bool      `json:"pretty"`
	Coding     string    `json:"coding"` // "", gzip, deflate
	ShortN     int       `json:"short_write_accepts"`
	Middleware bool      `json:"http_middleware_between_filter_and_handler"`
	MWKind     int       `json:"middleware_kind,omitempty"`  // 0 passes w and r through, 1 wraps the writer, 2 derives a request (WithContext), 3 both
	NoProduces bool      `json:"route_declares_no_produces"` // with an Accept no writer serves, entity calls answer 406
	DefaultCT  string    `json:"default_response_content_type,omitempty"`
	// Prior: so many other requests (a handler that writes an entity and a few hundred bytes) are answered
	// by the same container first: whatever the container keeps between requests starts out used
	Prior int `json:"requests_answered_by_the_container_before,omitempty"`
	// Swap: a container filter puts a byte-counting wrapper into Response.ResponseWriter for the rest of the
	// chain and takes it out again afterwards (what logging and ETag filters do): the writer the Response
	// writes to is then that wrapper
	Swap bool `json:"filter_swaps_the_writer_inside_the_response,omitempty"`
	// DeclaredCL: the handler sets a Content-Length header itself before its first call (a HEAD or 304
	// answer carrying the representation's length, or simply a handler that knows its size): a declared
	// length is not a sent length
	DeclaredCL bool `json:"handler_sets_content_length_header,omitempty"`
	// Nested: the container is mounted with HandleWithFilter in an outer container (which does the
	// encoding, if any) whose own container filter reads StatusCode() and ContentLength() of ITS Response
	// after the chain: the same bookkeeping one level up
	Nested bool `json:"mounted_in_an_outer_container_with_an_observing_filter,omitempty"`
}

var c15First = []string{"none", "WriteHeader", "WriteEntity", "WriteHeaderAndEntity", "WriteAsJson", "WriteAsXml", "WriteJson", "WriteHeaderAndJson", "WriteHeaderAndXml", "WriteError", "WriteErrorString", "WriteServiceError"}

func genC15(x *Ctx) *c15Scen {
	tp := x.Tape
	sc := &c15Scen{}
	maxN := 3000
	maxWrites := 5
	if x.Thorough() {
		maxN = 12000
		maxWrites = 8
	}
	first := c15First[tp.G(len(c15First))]
	if first != "none" {
		c := c15Call{Kind: first, Status: []int{200, 201, 404, 500, 202, 42, 1000, 299, 101, 204, 304}[tp.G(11)], N: tp.G(maxN + 1)}
		if tp.Chance(60) {
			c.N = []int{4096, 5000, 8192, 9000}[tp.G(4)] // entities that make the streaming encoders flush more than once
		}
		c.Nil = tp.Chance(80)
		sc.Calls = append(sc.Calls, c)
	}
	tp.Repeat(0, maxWrites, 650, func(int) {
		c := c15Call{Kind: "Write", N: tp.G(maxN + 1)}
		if tp.Chance(100) {
			c.N = 0
		}
		sc.Calls = append(sc.Calls, c)
	})
	sc.Accept = []string{"", "application/json", "application/xml", "application/xml;q=0.4, application/json", "text/plain;q=0.9, */*;q=0.1"}[tp.G(5)]
	sc.Pretty = tp.Bool()
	sc.Coding = []string{"", "", "gzip", "deflate"}[tp.G(4)]
	sc.ShortN = tp.G(64)
	sc.Middleware = tp.Chance(350)
	if sc.Middleware {
		sc.MWKind = tp.G(5) // 4: buffers everything the chain writes and sends it after the chain returned
	}
	if tp.Chance(150) {
		sc.NoProduces = true
		sc.Accept = []string{"", "*/*"}[tp.G(2)] // admitted by the router, served by no entity writer
		if tp.Bool() {
			// ... unless the package-level default names one
			sc.DefaultCT = []string{"application/json", "application/xml"}[tp.G(2)]
		}
	}
	sc.Swap = tp.Chance(150)
	sc.DeclaredCL = tp.Chance(80)
	sc.Nested = tp.Chance(100)
	if tp.Chance(30) {
		sc.Prior = []int{3, 17, 40, 130}[tp.G(4)]
	}
	return sc
}

// c15PassWriter is a writer wrapper that forwards everything.
type c15PassWriter struct{ http.ResponseWriter }

type c15CtxKey struct{}

type c15Obs struct {
	callErr   []error
	callFired []bool // the underlying writer returned an injected error during this call
	callRef   []bool // the underlying writer refused body bytes during this call (status without a body)
	status    int    // Response.StatusCode() seen by the trailing filter
	length    int    // Response.ContentLength() seen by the trailing filter
	hStatus   int    // the same, seen by the handler after its last call
	hLength   int
	w         *sim.SimWriter
	escaped   interface{}
	ran       bool
	swapN     int // bytes accepted through the wrapper the swapping filter installed
	oStatus   int // StatusCode() / ContentLength() seen by the outer container's filter (Nested)
	oLength   int
}

type c15CountWriter struct {
	http.ResponseWriter
	n int
}

func (c *c15CountWriter) Write(p []byte) (int, error) {
	n, err := c.ResponseWriter.Write(p)
	c.n += n
	return n, err
}

func c15EntityFor(n int) *c15Entity {
	e := &c15Entity{Name: sim.PayloadText("name", n%97), Count: int64(n)<<33 + 7}
	for i := 0; i*40 < n; i++ {
		e.Items = append(e.Items, sim.PayloadText(fmt.Sprintf("i%d", i), 40))
	}
	return e
}

// c15Exec runs the call sequence once on a fresh container with the given fault plan.
func c15Exec(sc *c15Scen, mode, failAt int) *c15Obs {
	obs := &c15Obs{}
	restful.DefaultResponseContentType(sc.DefaultCT)
	c := restful.NewContainer()
	c.EnableContentEncoding(sc.Coding != "")
	c.Filter(func(req *restful.Request, resp *restful.Response, chain *restful.FilterChain) {
		chain.ProcessFilter(req, resp)
		obs.status, obs.length = resp.StatusCode(), resp.ContentLength()
	})
	if sc.Swap {
		c.Filter(func(req *restful.Request, resp *restful.Response, chain *restful.FilterChain) {
			orig := resp.ResponseWriter
			cw := &c15CountWriter{ResponseWriter: orig}
			resp.ResponseWriter = cw
			chain.ProcessFilter(req, resp)
			resp.ResponseWriter = orig
			obs.swapN = cw.n
		})
	}
	if sc.Middleware {
		// the documented adapter for net/http middlewares; a pass-through one
		c.Filter(restful.HttpMiddlewareHandlerToFilter(func(next http.Handler) http.Handler {
			return http.HandlerFunc(func(rw http.ResponseWriter, r *http.Request) {
				if sc.MWKind == 4 {
					// what an ETag or compression middleware does: hold the body back, send it when next is done
					bw := &bufferingWriter{hdr: rw.Header()}
					next.ServeHTTP(bw, r)
					if bw.status != 0 {
						rw.WriteHeader(bw.status)
					}
					if len(bw.buf) > 0 {
						rw.Write(bw.buf)
					}
					return
				}
				if sc.MWKind&1 != 0 {
					rw = &c15PassWriter{rw} // what a metrics or timeout middleware does
				}
				if sc.MWKind&2 != 0 {
					r = r.WithContext(context.WithValue(r.Context(), c15CtxKey{}, 1))
				}
				next.ServeHTTP(rw, r)
			})
		}))
	}
	ws := new(restful.WebService).Path("/b")
	if !sc.NoProduces {
		ws.Produces("application/json", "application/xml")
	}
	ws.Route(ws.GET("/k").To(func(req *restful.Request, resp *restful.Response) {
		obs.ran = true
		if sc.DeclaredCL {
			resp.Header().Set("Content-Length", "1234")
		}
		resp.PrettyPrint(sc.Pretty)
		for _, call := range sc.Calls {
			before, refBefore := obs.w.Fired, obs.w.Refused
			var err error
			var v interface{}
			if !call.Nil {
				v = c15EntityFor(call.N)
			}
			switch call.Kind {
			case "Write":
				if call.N%3 == 1 {
					// the same bytes the way io.Copy delivers them from a plain reader (a file): through the
					// destination's io.ReaderFrom if it has one, through Write otherwise
					_, err = io.Copy(resp, onlyReader{bytes.NewReader(sim.PayloadBytes("w", call.N))})
				} else {
					_, err = resp.Write(sim.PayloadBytes("w", call.N))
				}
			case "WriteHeader":
				resp.WriteHeader(call.Status)
			case "WriteEntity":
				err = resp.WriteEntity(v)
			case "WriteHeaderAndEntity":
				err = resp.WriteHeaderAndEntity(call.Status, v)
			case "WriteAsJson":
				err = resp.WriteAsJson(v)
			case "WriteAsXml":
				err = resp.WriteAsXml(v)
			case "WriteJson":
				err = resp.WriteJson(v, "application/json")
			case "WriteHeaderAndJson":
				err = resp.WriteHeaderAndJson(call.Status, v, "application/json")
			case "WriteHeaderAndXml":
				err = resp.WriteHeaderAndXml(call.Status, v)
			case "WriteError":
				if call.Nil {
					err = resp.WriteError(call.Status, nil)
				} else {
					err = resp.WriteError(call.Status, errors.New(sim.PayloadText("err", call.N%200)))
				}
			case "WriteErrorString":
				err = resp.WriteErrorString(call.Status, sim.PayloadText("errs", call.N%200))
			case "WriteServiceError":
				err = resp.WriteServiceError(call.Status, restful.NewError(call.Status, sim.PayloadText("se", call.N%200)))
			}
			obs.callErr = append(obs.callErr, err)
			obs.callFired = append(obs.callFired, obs.w.Fired > before)
			obs.callRef = append(obs.callRef, obs.w.Refused > refBefore)
		}
		obs.hStatus, obs.hLength = resp.StatusCode(), resp.ContentLength()
	}))
	ws.Route(ws.GET("/p/{n}").To(func(req *restful.Request, resp *restful.Response) {
		resp.WriteHeaderAndEntity(203, c15EntityFor(60))
		resp.Write(sim.PayloadBytes("prior", 150+len(req.PathParameter("n"))))
	}))
	c.Add(ws)
	for i := 0; i < sc.Prior; i++ {
		pw := sim.NewSimWriter(sim.Cur())
		pw.Quiet = true
		ph := map[string]string{}
		if sc.Coding != "" && i%2 == 0 {
			ph["Accept-Encoding"] = sc.Coding
		}
		Serve(c, i%2, pw, NewReq("GET", fmt.Sprintf("/b/p/%d", i), ph, nil, 0, 1))
	}
	obs.status, obs.length, obs.swapN = 0, 0, 0
	obs.w = sim.NewSimWriter(sim.Cur())
	obs.w.Quiet = true
	obs.w.FaultMode, obs.w.FailAt, obs.w.ShortN = mode, failAt, sc.ShortN
	obs.w.BodyRule = true // as net/http's writer: no body bytes after 1xx, 204, 304
	hdr := map[string]string{}
	if sc.Accept != "" {
		hdr["Accept"] = sc.Accept
	}
	if sc.Coding != "" {
		hdr["Accept-Encoding"] = sc.Coding
	}
	if sc.Nested {
		outer := restful.NewContainer()
		outer.EnableContentEncoding(sc.Coding != "")
		c.EnableContentEncoding(false)
		outer.Filter(func(req *restful.Request, resp *restful.Response, chain *restful.FilterChain) {
			chain.ProcessFilter(req, resp)
			obs.oStatus, obs.oLength = resp.StatusCode(), resp.ContentLength()
		})
		outer.HandleWithFilter("/", c)
		obs.escaped = Serve(outer, EntryServeHTTP, obs.w, NewReq("GET", "/b/k", hdr, nil, 0, 1))
		return obs
	}
	obs.escaped = Serve(c, EntryServeHTTP, obs.w, NewReq("GET", "/b/k", hdr, nil, 0, 1))
	return obs
}

func runC15(x *Ctx) {
	sc := genC15(x)
	x.Res.Scenario = sc
	x.Res.ScenHash = sim.HashString(jsonStr(sc))
	s := x.Sim
	type variant struct {
		mode, at int
		obs      *c15Obs
	}
	var vs []variant
	var plain *c15Obs // same calls, no coding, no fault: defines the uncoded byte stream
	s.Go("caller", func(t *sim.Task) {
		base := c15Exec(sc, sim.WFaultNone, 0)
		vs = append(vs, variant{sim.WFaultNone, 0, base})
		if sc.Coding != "" {
			twin := *sc
			twin.Coding = ""
			plain = c15Exec(&twin, sim.WFaultNone, 0)
		} else {
			plain = base
		}
		t.Y(sim.SiteHandler)
		for k := 0; k < len(base.w.Chunks); k++ {
			vs = append(vs, variant{sim.WFaultFail, k, c15Exec(sc, sim.WFaultFail, k)})
			vs = append(vs, variant{sim.WFaultShort, k, c15Exec(sc, sim.WFaultShort, k)})
			vs = append(vs, variant{sim.WFaultOnce, k, c15Exec(sc, sim.WFaultOnce, k)})
		}
	})
	if !s.Run() {
		return
	}
	checkNoEscapes(x, s)
	fired := 0
	for _, v := range vs {
		o := v.obs
		what := fmt.Sprintf("calls %s accept=%q pretty=%v coding=%q middleware=%v/%d fault=%s@write#%d", jsonStr(sc.Calls), sc.Accept, sc.Pretty, sc.Coding, sc.Middleware, sc.MWKind, []string{"none", "fail", "short", "once"}[v.mode], v.at)
		if o.escaped != nil {
			x.Violate("panic", "%s: panic %v", what, o.escaped)
			continue
		}
		if !o.ran {
			x.Violate("infra-handler-not-run", "%s: status %d", what, o.w.Status())
			continue
		}
		if o.w.Fired > 0 {
			fired++
			x.Count("fault-" + []string{"none", "wfail", "wshort", "wonce"}[v.mode])
		}
		wantStatus := 200
		if len(o.w.Statuses) > 0 {
			wantStatus = o.w.Statuses[0]
		}
		if o.status != wantStatus || o.hStatus != wantStatus {
			x.Violate("status-bookkeeping", "%s: StatusCode() is %d for the trailing filter and %d for the handler, the underlying writer received %v", what, o.status, o.hStatus, o.w.Statuses)
		}
		if o.status != o.hStatus || o.length != o.hLength {
			x.Violate("filter-sees-other-values", "%s: the handler reads status %d length %d, the trailing filter %d and %d", what, o.hStatus, o.hLength, o.status, o.length)
		}
		if st := o.w.Status(); sc.Middleware && sc.MWKind == 4 && (v.mode != sim.WFaultNone || st == 204 || st == 304 || (st >= 100 && st < 200)) {
			// the buffering middleware sends the body after the handler's calls are over: a fault (or the
			// writer refusing a body for this status) then hits the middleware's own write, which no call of
			// the Response can report
			continue
		}
		if sc.Nested && (o.oStatus != wantStatus || ((sc.Coding == "" || v.mode == sim.WFaultNone) && o.oLength != o.length)) {
			x.Violate("status-bookkeeping", "%s: the filter of the outer container (the inner one is mounted with HandleWithFilter) reads status %d length %d from its Response, the inner filter %d and %d, the underlying writer received %v", what, o.oStatus, o.oLength, o.status, o.length, o.w.Statuses)
		}
		if sc.Swap && (sc.Coding == "" || v.mode == sim.WFaultNone) && o.swapN != o.length {
			x.Violate("length-bookkeeping", "%s: ContentLength() is %d, but the writer a filter had put into Response.ResponseWriter for the rest of the chain accepted %d bytes (the others went around it)", what, o.length, o.swapN)
		}
		if sc.Coding == "" {
			if o.length != len(o.w.Body) {
				x.Violate("length-bookkeeping", "%s: ContentLength() is %d, the underlying writer accepted %d bytes (writes %v accepted %v)", what, o.length, len(o.w.Body), o.w.Chunks, o.w.Accepted)
			}
			for i, f := range o.callRef {
				if f && !o.callFired[i] && !errors.Is(o.callErr[i], http.ErrBodyNotAllowed) {
					x.Violate("write-error-swallowed", "%s: the underlying writer refused the body of call #%d (%s) with http.ErrBodyNotAllowed (status %d allows none) but the call returned %v", what, i, sc.Calls[i].Kind, o.w.Status(), o.callErr[i])
				}
			}
			for i, f := range o.callFired {
				if f && !errors.Is(o.callErr[i], sim.ErrSim) {
					x.Violate("write-error-swallowed", "%s: the underlying writer failed during call #%d (%s) but the call returned %v", what, i, sc.Calls[i].Kind, o.callErr[i])
				}
			}
		} else if st := o.w.Status(); v.mode == sim.WFaultNone && !(st == 204 || st == 304 || (st >= 100 && st < 200)) {
			// (a status that allows no body makes the writer refuse the coded stream: like a fault, only the
			// status bookkeeping is judged then)
			// counted before coding: the compressor accepted exactly the uncoded byte stream
			if o.length != len(plain.w.Body) {
				x.Violate("length-bookkeeping", "%s: ContentLength() is %d with the coding in between, the uncoded stream has %d bytes", what, o.length, len(plain.w.Body))
			}
			got, err := Decode(o.w.H.Get("Content-Encoding"), o.w.Body)
			if err != nil || !bytes.Equal(got, plain.w.Body) {
				x.Violate("coded-stream-differs", "%s: decoding gives %d bytes (error %v), the uncoded stream has %d", what, len(got), err, len(plain.w.Body))
			}
			x.Count("reach:bookkeeping-with-coding-in-between")
		}
		if v.mode == sim.WFaultNone {
			for i, e := range o.callErr {
				// a call may fail for its own reasons (encoding/xml cannot marshal a ServiceError); it may
				// not report an I/O error that never happened
				if errors.Is(e, sim.ErrSim) {
					x.Violate("spurious-error", "%s: call #%d (%s) returned %v without any fault", what, i, sc.Calls[i].Kind, e)
				}
			}
		}
	}
	x.CountN("enumerated-fault-positions", len(vs)-1)
	x.CountN("underlying-writes", len(vs[0].obs.w.Chunks))
	x.Res.Nontrivial = fired > 0
	x.Res.TraceHash = sim.HashString(fmt.Sprint(len(vs)))
}
