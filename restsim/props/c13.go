package props

import (
	"bytes"
	"context"
	"fmt"
	"io"
	"net/http"
	"strings"

	restful "github.com/emicklei/go-restful/v3"

	"restsim/sim"
)

func init() {
	register(&PropInfo{ID: "C13", Run: runC13, UseRace: true, Level: "exploration",
		Rule:   "a run = one generated scenario (provider kind and capacities, cold/drained cache, entry point, recovery switch, 2-6 client tasks x 1-3 requests of kinds get/post-gzip/post-deflate/post-trunc/notfound/panic/early-close/client-gone/plain/hijack/manual (the documented encoding filter built on NewCompressingResponseWriter), payload and chunk sizes) executed under one seeded schedule; distinct = distinct (scenario hash, schedule-trace hash); non-trivial = at least one preemption happened while a pooled object was held, or a fault (truncated body, panic, early close, failing writer, connection take-over) fired",
		Assume: []string{"sync.Pool's choice of object is outside the simulator; with that provider only identity-free verdicts are drawn"}})
}

type c13Req struct {
	ID       int    `json:"id"`
	Kind     string `json:"kind"`
	AE       string `json:"accept_encoding"`
	N        int    `json:"payload"`
	Chunks   []int  `json:"chunks,omitempty"`
	BChunks  []int  `json:"body_chunks,omitempty"`
	TruncAt  int    `json:"trunc_at,omitempty"`
	WFailAt  int    `json:"writer_fails_from_write,omitempty"`
	CancelRd int    `json:"context_cancelled_at_body_read,omitempty"` // k>0: the request's context ends before the k-th read of its body (the client gave up, a deadline passed); the upload itself goes on
	body     []byte
	payload  []byte
	w        *sim.SimWriter
	escaped  interface{}
	readErr  string
	readTok  string
	closed   bool
	err1     error
	err2     error
	partialN int
	hijackOK bool
	hijackE  string
	hw       sim.SimHijackWriter
}

type c13Scen struct {
	Provider string      `json:"provider"`
	WCap     int         `json:"wcap"`
	RCap     int         `json:"rcap"`
	Drain    int         `json:"drain"`
	Entry    string      `json:"entry"`
	Recover  bool        `json:"recover"`
	Preempt  int         `json:"preempt_permille"`
	Clients  [][]*c13Req `json:"clients"`
	// Raw: the provider is installed as it is, without the ledger wrapper around it. Whatever the library
	// asks a provider beyond the CompressorProvider interface (an optional interface it type-asserts for)
	// is answered by the real provider then; judged are the payloads, blocking and the race detector.
	Raw   bool `json:"provider_installed_without_the_ledger,omitempty"`
	entry int
}

type echoEntity struct {
	Tok string
	N   int64
	Pad string
}

// c13Panicky is an entity whose decoding panics.
type c13Panicky struct{ id int }

func (p *c13Panicky) UnmarshalJSON([]byte) error { panic(fmt.Sprintf("boom-%d", p.id)) }

func genC13(x *Ctx) *c13Scen {
	tp := x.Tape
	sc := &c13Scen{}
	caps := []int{1, 0, 2, 8}
	switch tp.G(4) {
	case 0, 1:
		sc.Provider = "bounded"
		sc.WCap = caps[tp.G(4)]
		sc.RCap = caps[tp.G(4)]
		if tp.Chance(300) {
			sc.Drain = tp.Range(1, 2)
		}
	case 2:
		sc.Provider = "syncpool"
	case 3:
		sc.Provider = "lifo"
	}
	sc.Raw = sc.Provider != "lifo" && tp.Chance(200)
	sc.entry = tp.G(3) // 2: the container's ServeMux used directly as the http.Handler
	sc.Entry = []string{"ServeHTTP", "Dispatch", "Mux"}[sc.entry]
	sc.Recover = tp.Bool()
	sc.Preempt = []int{300, 100, 500, 20}[tp.G(4)]
	nClients := 4
	maxPayload := 2048
	if x.Thorough() {
		nClients = 6
		maxPayload = 70000
	}
	id := 0
	kinds := []string{"get", "get", "post-gzip", "early-close", "post-trunc", "notfound", "panic", "post-deflate", "client-gone", "plain", "hijack", "manual", "no-content", "post-panic", "post-badzlib", "hijack-refused"}
	aes := []string{"gzip", "deflate", "gzip", "deflate, gzip", ""}
	tp.Repeat(2, nClients, 600, func(int) {
		var reqs []*c13Req
		tp.Repeat(1, 3, 550, func(int) {
			id++
			r := &c13Req{ID: id, Kind: kinds[tp.G(len(kinds))], AE: aes[tp.G(len(aes))]}
			r.N = tp.G(maxPayload)
			if tp.Chance(100) {
				r.N = 0
			}
			r.Chunks = chunkPlan(tp, tp.Range(1, 4), 1+r.N)
			r.payload = sim.PayloadBytes(fmt.Sprintf("r%d", r.ID), r.N)
			if r.Kind == "client-gone" {
				r.WFailAt = tp.G(4)
			}
			switch r.Kind {
			case "post-gzip", "post-trunc", "post-deflate", "post-panic", "post-badzlib":
				ent := echoEntity{Tok: fmt.Sprintf("tok-%d", r.ID), N: int64(r.ID) << 40, Pad: sim.PayloadText(fmt.Sprintf("p%d", r.ID), r.N%1500)}
				raw := []byte(jsonStr(ent))
				if r.Kind == "post-badzlib" {
					r.body = raw // declared deflate, but no zlib stream at all
				} else if r.Kind == "post-deflate" {
					r.body = Zlib(raw)
				} else {
					r.body = Gzip(raw)
				}
				r.BChunks = chunkPlan(tp, tp.Range(1, 3), 64)
				if tp.Chance(200) {
					r.CancelRd = 1 + tp.G(4)
				}
				if r.Kind == "post-trunc" {
					r.TruncAt = tp.G(maxInt(1, len(r.body)-24)) // inside the compressed value, well before the trailer
				}
			}
			reqs = append(reqs, r)
		})
		sc.Clients = append(sc.Clients, reqs)
	})
	return sc
}

func runC13(x *Ctx) {
	sc := genC13(x)
	x.Res.Scenario = sc
	x.Res.ScenHash = sim.HashString(jsonStr(sc))
	s := x.Sim
	s.Preempt = sc.Preempt

	// provider under test, wrapped by the ledger
	var inner restful.CompressorProvider
	switch sc.Provider {
	case "bounded":
		inner = restful.NewBoundedCachedCompressors(sc.WCap, sc.RCap)
		for i := 0; i < sc.Drain; i++ { // pre-drained cache: objects taken out and never returned
			inner.AcquireGzipWriter()
			inner.AcquireZlibWriter()
			inner.AcquireGzipReader()
		}
	case "syncpool":
		inner = restful.NewSyncPoolCompessors()
	case "lifo":
		inner = sim.NewLIFOProvider()
	}
	restful.SetCompressorProvider(&sim.LedgerProvider{Inner: inner, Sim: s})
	if sc.Raw {
		restful.SetCompressorProvider(inner)
		x.Count("reach:provider-without-ledger")
	}

	byID := map[int]*c13Req{}
	for _, cl := range sc.Clients {
		for _, r := range cl {
			byID[r.ID] = r
		}
	}

	c := restful.NewContainer()
	c.EnableContentEncoding(true)
	c.DoNotRecover(!sc.Recover)
	ws := new(restful.WebService).Path("/p")
	writeChunks := func(t *sim.Task, resp *restful.Response, r *c13Req, upto int) {
		off := 0
		for i := 0; off < upto; i++ {
			n := r.Chunks[i%len(r.Chunks)]
			if off+n > upto {
				n = upto - off
			}
			resp.Write(r.payload[off : off+n])
			off += n
			t.Y(sim.SiteHandler)
		}
	}
	ws.Route(ws.GET("/data").To(func(req *restful.Request, resp *restful.Response) {
		t := sim.Cur()
		r := byID[ReqID(req.Request)]
		writeChunks(t, resp, r, len(r.payload))
	}))
	ws.Route(ws.GET("/panic").To(func(req *restful.Request, resp *restful.Response) {
		t := sim.Cur()
		r := byID[ReqID(req.Request)]
		r.partialN = len(r.payload) / 2
		writeChunks(t, resp, r, r.partialN)
		t.Count("fault-panic")
		panic(fmt.Sprintf("boom-%d", r.ID))
	}))
	ws.Route(ws.GET("/early").To(func(req *restful.Request, resp *restful.Response) {
		t := sim.Cur()
		r := byID[ReqID(req.Request)]
		writeChunks(t, resp, r, len(r.payload))
		if cw, ok := resp.ResponseWriter.(*restful.CompressingResponseWriter); ok {
			t.Count("fault-early-close")
			r.closed = true
			r.err1 = cw.Close()
			t.Y(sim.SiteHandler)
			r.err2 = cw.Close()
		}
	}))
	// the handler takes the connection over (a websocket upgrade does that) and keeps it for a while
	ws.Route(ws.GET("/hijack").To(func(req *restful.Request, resp *restful.Response) {
		t := sim.Cur()
		r := byID[ReqID(req.Request)]
		conn, _, err := resp.Hijack()
		if err != nil {
			r.hijackE = err.Error()
			if r.Kind == "hijack-refused" {
				// the take-over was refused: an ordinary response instead
				t.Count("fault-hijack-refused")
				writeChunks(t, resp, r, len(r.payload))
			}
			return
		}
		r.hijackOK = true
		t.Count("fault-hijack")
		off := 0
		for i := 0; off < len(r.payload); i++ {
			n := r.Chunks[i%len(r.Chunks)]
			if off+n > len(r.payload) {
				n = len(r.payload) - off
			}
			conn.Write(r.payload[off : off+n])
			off += n
			t.Y(sim.SiteHandler)
		}
		conn.Close()
		t.Y(sim.SiteHandler)
	}))
	// a bodyless answer (204 after a DELETE, 304 to a conditional GET) on an encoding container
	ws.Route(ws.GET("/nocontent").To(func(req *restful.Request, resp *restful.Response) {
		t := sim.Cur()
		r := byID[ReqID(req.Request)]
		t.Count("bodyless-responses")
		resp.WriteHeader([]int{204, 304}[r.ID%2])
		t.Y(sim.SiteHandler)
	}))
	// reads its (coded) entity completely, then panics
	ws.Route(ws.POST("/echopanic").To(func(req *restful.Request, resp *restful.Response) {
		t := sim.Cur()
		r := byID[ReqID(req.Request)]
		t.Count("fault-panic")
		if r.ID%2 == 1 {
			// the panic comes from inside the entity reader: user code (an UnmarshalJSON method) run by
			// ReadEntity while the pooled decompressor is in use
			var bad c13Panicky
			bad.id = r.ID
			req.ReadEntity(&bad)
			r.readErr = "ReadEntity returned although UnmarshalJSON panicked"
			return
		}
		var ent echoEntity
		if err := req.ReadEntity(&ent); err != nil {
			r.readErr = err.Error()
		}
		t.Y(sim.SiteHandler)
		panic(fmt.Sprintf("boom-%d", r.ID))
	}))
	ws.Route(ws.POST("/echo").To(func(req *restful.Request, resp *restful.Response) {
		r := byID[ReqID(req.Request)]
		var ent echoEntity
		if err := req.ReadEntity(&ent); err != nil {
			r.readErr = err.Error()
			resp.WriteErrorString(400, "bad:"+err.Error())
			return
		}
		r.readTok = fmt.Sprintf("%s/%d/%d", ent.Tok, ent.N, len(ent.Pad))
		if req.Request.Header.Get("Content-Encoding") == "deflate" {
			// drain what is left of the body, as handlers do before answering (keep-alive); for a deflate
			// body this reads through the request's own zlib reader once more
			io.Copy(io.Discard, req.Request.Body)
		}
		resp.Write([]byte("tok=" + r.readTok))
	}))
	c.Add(ws)
	// the documented per-route encoding filter (examples/encoding): user code builds the compressing
	// writer itself, on a container without container-level encoding; same provider
	c2 := restful.NewContainer()
	c2.DoNotRecover(!sc.Recover)
	ws2 := new(restful.WebService).Path("/m")
	ws2.Route(ws2.GET("/data").Filter(func(req *restful.Request, resp *restful.Response, chain *restful.FilterChain) {
		r := byID[ReqID(req.Request)]
		coding := restful.ENCODING_GZIP
		if strings.HasPrefix(r.AE, "deflate") {
			coding = restful.ENCODING_DEFLATE
		}
		compress, err := restful.NewCompressingResponseWriter(resp.ResponseWriter, coding)
		if err != nil {
			r.hijackE = err.Error()
			return
		}
		resp.ResponseWriter = compress
		defer func() { compress.Close() }()
		chain.ProcessFilter(req, resp)
	}).To(func(req *restful.Request, resp *restful.Response) {
		t := sim.Cur()
		r := byID[ReqID(req.Request)]
		t.Count("manual-encoding-filter-requests")
		writeChunks(t, resp, r, len(r.payload))
	}))
	c2.Add(ws2)
	// a plain http.Handler: through the ServeMux directly it is the Handle wrapper that encodes
	c.Handle("/plain/", http.HandlerFunc(func(rw http.ResponseWriter, hr *http.Request) {
		t := sim.Cur()
		r := byID[ReqID(hr)]
		off := 0
		for i := 0; off < len(r.payload); i++ {
			n := r.Chunks[i%len(r.Chunks)]
			if off+n > len(r.payload) {
				n = len(r.payload) - off
			}
			rw.Write(r.payload[off : off+n])
			off += n
			t.Y(sim.SiteHandler)
		}
	}))

	for ci, cl := range sc.Clients {
		cl := cl
		s.Go(fmt.Sprintf("client%d", ci), func(t *sim.Task) {
			for _, r := range cl {
				t.Req = r.ID
				hdr := map[string]string{}
				if r.AE != "" {
					hdr["Accept-Encoding"] = r.AE
				}
				var hr = NewReq("GET", "/p/data", hdr, nil, 0, r.ID)
				switch r.Kind {
				case "panic":
					hr = NewReq("GET", "/p/panic", hdr, nil, 0, r.ID)
				case "early-close":
					hr = NewReq("GET", "/p/early", hdr, nil, 0, r.ID)
				case "hijack", "hijack-refused":
					hr = NewReq("GET", "/p/hijack", hdr, nil, 0, r.ID)
				case "manual":
					hr = NewReq("GET", "/m/data", hdr, nil, 0, r.ID)
				case "no-content":
					hr = NewReq("GET", "/p/nocontent", hdr, nil, 0, r.ID)
				case "notfound":
					hr = NewReq("GET", "/p/none", hdr, nil, 0, r.ID)
				case "plain":
					hr = NewReq("GET", "/plain/x", hdr, nil, 0, r.ID)
				case "post-gzip", "post-trunc", "post-deflate", "post-panic", "post-badzlib":
					hdr["Content-Type"] = "application/json"
					hdr["Content-Encoding"] = "gzip"
					if r.Kind == "post-badzlib" {
						t.Count("fault-bhdr")
					}
					if r.Kind == "post-deflate" || r.Kind == "post-badzlib" {
						hdr["Content-Encoding"] = "deflate"
					}
					b := &sim.SimBody{T: t, Data: r.body, Chunks: r.BChunks}
					if r.Kind == "post-trunc" {
						b.Mode, b.FaultAt = sim.BFaultTrunc, r.TruncAt
						t.Count("fault-btrunc")
					}
					hr = NewReq("POST", "/p/echo", hdr, b, int64(len(r.body)), r.ID)
					if r.Kind == "post-panic" {
						hr = NewReq("POST", "/p/echopanic", hdr, b, int64(len(r.body)), r.ID)
					}
					if r.CancelRd > 0 {
						ctx, cancel := context.WithCancel(hr.Context())
						hr = hr.WithContext(ctx)
						k := r.CancelRd
						b.OnRead = func(n int) {
							if n == k {
								t.Count("fault-context-cancelled")
								cancel()
							}
						}
					}
				}
				r.w = sim.NewSimWriter(t)
				if r.Kind == "client-gone" {
					// the client goes away: every underlying write from #WFailAt on fails
					r.w.FaultMode, r.w.FailAt = sim.WFaultFail, r.WFailAt
				}
				var rw http.ResponseWriter = r.w
				if r.Kind == "hijack" || r.Kind == "hijack-refused" {
					r.w.RefuseHijack = r.Kind == "hijack-refused"
					r.hw = sim.SimHijackWriter{SimWriter: r.w}
					rw = r.hw
				}
				if r.Kind == "manual" {
					r.escaped = Serve(c2, sc.entry%2, rw, hr)
				} else if sc.entry == 2 {
					func() {
						defer func() { r.escaped = recover() }()
						c.ServeMux.ServeHTTP(rw, hr)
					}()
				} else {
					r.escaped = Serve(c, sc.entry, rw, hr)
				}
				if r.w.Fired > 0 {
					t.Count("fault-wfail")
				}
				t.Yield(sim.SiteCheckpoint, sim.KCheckpoint, 0, 0)
			}
		})
	}

	heldPreempt := false
	s.OnMsg = func(s *sim.Sim, t *sim.Task, m sim.Msg) {
		if s.Ledger.HeldNow() > 0 && s.Counts["preemptions"] > 0 {
			heldPreempt = true
		}
		if s.Ledger.HeldNow() >= 2 {
			s.Counts["reach:two-objects-held-at-once"] = 1
		}
	}

	if !s.Run() {
		return
	}
	s.MergeCounts()
	if heldPreempt {
		x.Count("reach:preempted-while-holding")
	}
	x.Res.Nontrivial = heldPreempt || s.Counts["fault-panic"]+s.Counts["fault-btrunc"]+s.Counts["fault-early-close"]+s.Counts["fault-wfail"]+s.Counts["fault-hijack"] > 0

	for _, e := range s.Events() {
		if e.Kind == "use-after-release" {
			x.Violate("use-after-release", "request %d: a released %s was used (%d bytes) without being acquired and Reset again", e.Req, e.S, e.N)
		}
	}
	for _, cl := range sc.Clients {
		for _, r := range cl {
			if r.Kind == "client-gone" {
				// bytes were lost by the fault; only the ledger, blocking and the other responses are judged
				if r.escaped != nil {
					x.Violate("panic-escaped", "request %d (client-gone): unexpected panic %v", r.ID, r.escaped)
				}
				continue
			}
			if r.Kind == "hijack" {
				// the exchange no longer belongs to the framework: only what the new owner wrote counts,
				// and the ledger, the tripwires and the other responses are judged as always
				if r.escaped != nil {
					x.Violate("panic-escaped", "request %d (hijack): unexpected panic %v", r.ID, r.escaped)
				}
				if !r.hijackOK {
					x.Violate("hijack-refused", "request %d: Hijack on a writer that supports it answered %q", r.ID, r.hijackE)
				} else if !bytes.Equal(r.w.ConnBytes, r.payload) {
					x.Violate("foreign-payload", "request %d (hijack): the connection received %d bytes (%q), the handler wrote %d", r.ID, len(r.w.ConnBytes), clip(string(r.w.ConnBytes), 40), len(r.payload))
				}
				continue
			}
			enc := r.w.H.Get("Content-Encoding")
			got, err := Decode(enc, r.w.Body)
			if err != nil {
				x.Violate("undecodable", "request %d (%s, Accept-Encoding %q): response labelled %q does not decode: %v", r.ID, r.Kind, r.AE, enc, err)
				continue
			}
			if enc != "" {
				x.Count("encoded-responses")
			}
			switch r.Kind {
			case "plain":
				// unreachable through Dispatch (no mux): the router answers 404
				if sc.entry == EntryDispatch {
					if r.w.Status() != 404 {
						x.Violate("status", "request %d: plain handler path through Dispatch answered %d", r.ID, r.w.Status())
					}
				} else if !bytes.Equal(got, r.payload) {
					x.Violate("foreign-payload", "request %d (plain): decoded body (%d bytes, %q) is not its own payload (%d bytes)", r.ID, len(got), clip(string(got), 40), len(r.payload))
				}
			case "manual":
				if r.hijackE != "" {
					x.Violate("manual-writer-refused", "request %d: NewCompressingResponseWriter answered %q", r.ID, r.hijackE)
				} else if enc == "" {
					x.Violate("unlabelled", "request %d (manual): a response written through NewCompressingResponseWriter carries no Content-Encoding", r.ID)
				} else if !bytes.Equal(got, r.payload) {
					x.Violate("foreign-payload", "request %d (manual): decoded body (%d bytes, %q) is not its own payload (%d bytes)", r.ID, len(got), clip(string(got), 40), len(r.payload))
				}
			case "no-content":
				if st := r.w.Status(); st != []int{204, 304}[r.ID%2] || len(got) != 0 {
					x.Violate("status", "request %d (no-content): status %d with %d decoded body bytes", r.ID, st, len(got))
				}
			case "get", "early-close", "hijack-refused":
				if !bytes.Equal(got, r.payload) {
					x.Violate("foreign-payload", "request %d (%s): decoded body (%d bytes, %q) is not its own payload (%d bytes)", r.ID, r.Kind, len(got), clip(string(got), 40), len(r.payload))
				}
				if r.Kind == "early-close" && r.closed {
					if r.err1 != nil {
						x.Violate("first-close-error", "request %d: first Close of the response writer returned %v", r.ID, r.err1)
					}
					if r.err2 == nil {
						x.Violate("second-close-accepted", "request %d: closing the response writer a second time returned no error", r.ID)
					}
				}
			case "post-panic":
				if sc.Recover {
					if r.escaped != nil {
						x.Violate("panic-escaped", "request %d: panic %v escaped with recovery on", r.ID, r.escaped)
					}
				} else if fmt.Sprint(r.escaped) != fmt.Sprintf("boom-%d", r.ID) {
					x.Violate("panic-lost", "request %d: recovery off but the caller saw %v", r.ID, r.escaped)
				}
				if r.readErr != "" {
					x.Violate("foreign-payload", "request %d (post-panic): its own well-formed entity was not readable: %s", r.ID, r.readErr)
				}
			case "panic":
				if sc.Recover {
					if r.escaped != nil {
						x.Violate("panic-escaped", "request %d: panic %v escaped with recovery on", r.ID, r.escaped)
					}
				} else if fmt.Sprint(r.escaped) != fmt.Sprintf("boom-%d", r.ID) {
					x.Violate("panic-lost", "request %d: recovery off but the caller saw %v", r.ID, r.escaped)
				}
				if !bytes.HasPrefix(got, r.payload[:r.partialN]) {
					x.Violate("foreign-payload", "request %d (panic): decoded body does not start with the %d bytes written before the panic", r.ID, r.partialN)
				}
			case "post-gzip", "post-deflate":
				want := fmt.Sprintf("tok=tok-%d/%d/%d", r.ID, int64(r.ID)<<40, (r.N % 1500))
				if string(got) != want {
					x.Violate("foreign-payload", "request %d (%s): handler decoded %q (read error %q), want %q", r.ID, r.Kind, clip(string(got), 60), r.readErr, want)
				}
			case "post-trunc":
				if r.readErr == "" {
					x.Violate("truncated-body-accepted", "request %d: gzip body cut at byte %d of %d was read without error as %q", r.ID, r.TruncAt, len(r.body), r.readTok)
				} else if !strings.HasPrefix(string(got), "bad:") {
					x.Violate("foreign-payload", "request %d (post-trunc): body %q", r.ID, clip(string(got), 60))
				}
			case "post-badzlib":
				if r.readErr == "" {
					x.Violate("broken-body-accepted", "request %d: a body declared deflate that is no zlib stream was read without error as %q", r.ID, r.readTok)
				} else if !strings.HasPrefix(string(got), "bad:") {
					x.Violate("foreign-payload", "request %d (post-badzlib): body %q", r.ID, clip(string(got), 60))
				}
			case "notfound":
				if r.w.Status() != 404 {
					x.Violate("status", "request %d: unknown path answered %d", r.ID, r.w.Status())
				}
			}
			if r.escaped != nil && r.Kind != "panic" && r.Kind != "post-panic" {
				x.Violate("panic-escaped", "request %d (%s): unexpected panic %v", r.ID, r.Kind, r.escaped)
			}
		}
	}
	x.CountN("ledger-acquires", s.Ledger.Acquires)
	x.CountN("ledger-releases", s.Ledger.Releases)
}
