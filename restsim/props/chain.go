package props

import (
	"bytes"
	"context"
	"errors"
	"fmt"
	"io"
	"net/http"
	"strconv"
	"strings"
	"time"

	restful "github.com/emicklei/go-restful/v3"

	"restsim/sim"
)

// The chain engine: one container with filters at three levels, a routed service, plain handlers
// registered through Handle and HandleWithFilter, optional content encoding, optional nesting in
// an outer encoding container, and crash points at every position of the chain. C06, C07 and C10
// draw their scenarios from it with different knob distributions and apply different oracles.

type FSpec struct {
	Kind string `json:"kind"` // pass | short | attr | newreq | newresp | mw-pass | mw-short | mw-wrap
	Pre  int    `json:"pre,omitempty"`
	Post int    `json:"post,omitempty"`
	tag  string
}

type ChainCfg struct {
	Entry        string `json:"entry"` // ServeHTTP | Dispatch | Mux | Nested | NestedFilter
	Router       string `json:"router"`
	ContEnc      bool   `json:"container_encoding"`
	ContEncReg   bool   `json:"container_encoding_while_registering"` // the switch is flipped to container_encoding before serving
	RouteEnc     int    `json:"route_encoding"`                       // 0 unset, 1 true, 2 false
	ReuseBuilder bool   `json:"one_route_builder_for_both_routes"`
	RouteEncPost int    `json:"post_route_encoding,omitempty"`                            // with ReuseBuilder: set on the builder after the GET route was built (0: left as it was)
	RouteEncLate int    `json:"get_route_encoding_set_on_the_registered_route,omitempty"` // Route.EnableContentEncoding on the stored GET route after registration (0: not called)
	Provider     string `json:"provider"`
	RawProvider  bool   `json:"provider_installed_without_the_ledger,omitempty"`
	WCap         int    `json:"wcap,omitempty"`
	RCap         int    `json:"rcap,omitempty"`
	Recover      int    `json:"recover"` // 0 off, 1 default handler, 2 custom handler
	CustomErr    bool   `json:"custom_service_error_handler"`
	Flusher      bool   `json:"writer_is_flusher"`
	Trace        bool   `json:"trace"`
	LateConfig   bool   `json:"container_configured_after_registration"`
	// Warm: a request is served to each service when only the first WarmCF container filters and
	// WarmSF / WarmSF2 service filters are registered; the rest is registered afterwards, before the
	// simulated clients start. Nothing computed for the first request may outlive it.
	Warm    bool `json:"warm_up_before_all_filters_are_registered"`
	WarmCF  int  `json:"warm_container_filters,omitempty"`
	WarmSF  int  `json:"warm_service_filters,omitempty"`
	WarmSF2 int  `json:"warm_service2_filters,omitempty"`
	// WarmFlip: during the warm-up the encoding and recovery switches have the opposite value
	WarmFlip bool    `json:"switches_opposite_during_warm_up,omitempty"`
	Pretty   bool    `json:"pretty"`
	CF       []FSpec `json:"container_filters"`
	SF       []FSpec `json:"service_filters"`
	RF       []FSpec `json:"route_filters"`
	SF2      []FSpec `json:"service2_filters,omitempty"`
	RF2      []FSpec `json:"route2_filters,omitempty"`
	// Twin: the first service has a second GET /data/{id} route that produces application/xml, with as
	// many route filters as the first one (other filters): (method, path) does not identify a route
	Twin    bool    `json:"twin_route_other_representation,omitempty"`
	RFT     []FSpec `json:"twin_route_filters,omitempty"`
	Preempt int     `json:"preempt_permille"`
	// Later (C06): the first route filter of the first service does not pass control on inside the call: it
	// keeps the rest of the chain and the client runs it after the entry point has returned and after its
	// next request was answered - a handler that outlives its request (what a handler abandoned by
	// http.TimeoutHandler does). The chain of a request is its own until it ends, not until dispatch returns.
	Later bool `json:"first_route_filter_continues_after_the_call_returned,omitempty"`
	// Fill: a third service /fill with so many routes GET /r<i>/{id}, each with one route filter of its
	// own: the API of a large application, where anything kept per route exists hundreds of times
	Fill int `json:"filler_routes,omitempty"`
	// OuterPrefix (nested entries): the handler mounted in the outer container is a plain net/http
	// middleware around the inner container that writes so many bytes first (a banner, a BOM, padding)
	OuterPrefix int `json:"outer_middleware_writes_prefix,omitempty"`
}

// fillIndex: the index of the filler route a target names ("fill:<i>").
func fillIndex(target string) (int, bool) {
	if !strings.HasPrefix(target, "fill:") {
		return 0, false
	}
	i, err := strconv.Atoi(target[5:])
	return i, err == nil
}

type ChainReq struct {
	ID          int    `json:"id"`
	Target      string `json:"target"` // route | post | notfound | badmethod | notacceptable | unsupported | plain | plainf | muxnotfound
	AE          string `json:"accept_encoding,omitempty"`
	PreCE       string `json:"writer_content_encoding,omitempty"`
	N           int    `json:"payload"`
	Chunks      []int  `json:"chunks,omitempty"`
	PanicAt     string `json:"panic_at,omitempty"`
	Flush       bool   `json:"flush,omitempty"`
	Early       bool   `json:"early_close,omitempty"`
	AddSvc      bool   `json:"add_service_afterwards,omitempty"`
	WFail       int    `json:"client_gone_at_write,omitempty"` // k>0: the client's writer fails from underlying write #k-1 on
	BodyGzip    bool   `json:"gzip_request_body,omitempty"`    // post target: the entity is sent gzip-coded and read with ReadEntity
	PanicKind   int    `json:"panic_value_kind,omitempty"`     // 0 string, 1 error, 2 pointer to a struct implementing error, 3 struct with String, 4 runtime error (nil map), 5 struct of an uncomparable type
	PanicInRead bool   `json:"panic_inside_entity_reader,omitempty"`
	CancelAt    string `json:"context_cancelled_at,omitempty"` // "start" or a point of the chain: the client went away, the request's context is done from there on
	EarlyHints  bool   `json:"handler_sends_103_early_hints_first,omitempty"`
	NoStore     bool   `json:"handler_sets_cache_control_no_store,omitempty"`
	FlushFirst  bool   `json:"handler_flushes_before_first_write,omitempty"` // the streaming pattern: commit the header, then write
	AddCE       bool   `json:"handler_adds_content_encoding_br,omitempty"`   // the route function declares its own payload br-coded: Header().Add, a layered coding
	LongPath    bool   `json:"path_of_2200_bytes,omitempty"`                 // target route: the id segment is 2.2 KB long (a key, a token, an encoded query)

	payload []byte
	res     [2]*ChainRes // 0: simulated run, 1: sequential twin
}

type ChainRes struct {
	W         *sim.SimWriter
	Escaped   interface{}
	Events    []string
	App       []byte // bytes written by harness code through the response, in order
	LibWrote  bool   // the library itself produced body bytes (default error / recover handler, mux)
	Recovers  int
	RecVal    string
	SawAttrs  string
	SawCtx    string
	SawGen    string
	SawParams string
	SawSel    string
	Foreign   int
	WrapIn    map[string]int // bytes that passed through each newresp/mw-wrap wrapper
	WrapWant  map[string]int // bytes written by actors downstream of that wrapper
	wrapStack []string
	Panicked  bool
	PanicVal  interface{}
	cancel    func()
	later     func() // the rest of the chain, handed over by a "later" filter: run after the entry point returned
	BeforeP   int    // body bytes accepted by the client before the panic was raised
	AppP      int    // bytes the application had written when the panic was raised
	StatusP   int    // statuses written before the panic
}

// current request / variant for callbacks: the running task's, or the sequential caller's.
var seqReq int
var seqVariant int

func curReqID() int {
	if t := sim.Cur(); t != nil {
		return t.Req
	}
	return seqReq
}

func curVariant() int {
	if sim.Cur() != nil {
		return 0
	}
	return seqVariant
}

type chainEnv struct {
	cfg   *ChainCfg
	byID  map[int]*ChainReq
	extra int
	late  func() // registers the filters held back for the warm-up (live container only)
}

func (e *chainEnv) res() (*ChainReq, *ChainRes) {
	r := e.byID[curReqID()]
	if r == nil {
		panic(fmt.Sprintf("harness: callback for unknown request %d", curReqID()))
	}
	return r, r.res[curVariant()]
}

func (e *chainEnv) ev(s string) {
	_, res := e.res()
	res.Events = append(res.Events, s)
	if t := sim.Cur(); t != nil {
		t.Ev("chain", s, 0)
	}
}

func y(site sim.Site) {
	if t := sim.Own(); t != nil {
		t.Y(site)
	}
}

// crash raises the injected panic if this is the request's crash point.
func (e *chainEnv) crash(point string) {
	r, res := e.res()
	if r.CancelAt == point && res.cancel != nil {
		res.cancel()
		if t := sim.Cur(); t != nil {
			t.Count("fault-context-cancelled")
		}
	}
	if r.PanicAt == point && !res.Panicked {
		res.Panicked = true
		res.BeforeP = len(res.W.Body)
		res.AppP = len(res.App)
		res.StatusP = len(res.W.Statuses)
		if t := sim.Cur(); t != nil {
			t.Count("fault-panic")
			if len(res.W.Body) > 0 {
				t.Count("reach:panic-after-partial-output")
			}
		}
		res.PanicVal = r.panicValue()
		if r.PanicKind == 4 {
			var m map[string]int
			m["x"] = 1 // a runtime error, the kind of panic real handlers raise
		}
		panic(res.PanicVal)
	}
}

// chainPanicky is an entity whose decoding reaches the crash point "handler:before".
type chainPanicky struct{ e *chainEnv }

func (p *chainPanicky) UnmarshalJSON([]byte) error {
	p.e.crash("handler:before")
	return nil
}

type chainPanicErr struct{ text string }

func (p *chainPanicErr) Error() string { return p.text }

type chainPanicVal struct{ text string }

func (p chainPanicVal) String() string { return p.text }

// chainPanicBag is a value of a type that cannot be compared (== on two of them panics at run time):
// what a panic carries when code panics with a struct holding a slice or a map, e.g. a ServiceError.
type chainPanicBag struct {
	text   string
	fields map[string]string
	trail  []string
}

func (p chainPanicBag) String() string { return p.text }

// pad makes the id segment of a LongPath request 2.2 KB long.
func (r *ChainReq) pad() string {
	if r.LongPath && r.Target == "route" {
		return strings.Repeat("k", 2200)
	}
	return ""
}

// panicText is what fmt.Sprint shows for the value the request panics with.
func (r *ChainReq) panicText() string {
	if r.PanicKind == 4 {
		return "assignment to entry in nil map"
	}
	if r.PanicKind == 6 {
		return fmt.Sprint(http.ErrAbortHandler)
	}
	return fmt.Sprintf("boom-%d@%s", r.ID, r.PanicAt)
}

func (r *ChainReq) panicValue() interface{} {
	text := r.panicText()
	switch r.PanicKind {
	case 1:
		return errors.New(text)
	case 2:
		return &chainPanicErr{text}
	case 3:
		return chainPanicVal{text}
	case 6:
		// net/http's sentinel for "abort this handler quietly": to the container it is a panic value like any
		// other ("a panic ... is passed once to the recover handler")
		return http.ErrAbortHandler
	case 5:
		return chainPanicBag{text: text, fields: map[string]string{"at": r.PanicAt}, trail: []string{text}}
	}
	return text
}

func (e *chainEnv) appWrite(w interface{ Write([]byte) (int, error) }, p []byte) {
	_, res := e.res()
	if len(p) == 0 {
		return
	}
	res.App = append(res.App, p...)
	for _, tag := range res.wrapStack {
		res.WrapWant[tag] += len(p)
	}
	if r, _ := e.res(); (len(p)+r.ID)%4 == 0 {
		// a quarter of the writes the way io.Copy does them from a plain reader (a file, a pipe): through
		// the destination's io.ReaderFrom if it has one, through Write otherwise
		io.Copy(w, onlyReader{bytes.NewReader(p)})
		return
	}
	w.Write(p)
}

// onlyReader hides every method of a reader but Read (no WriteTo: io.Copy must go through the destination).
type onlyReader struct{ io.Reader }

func fbytes(tag string, id, n int) []byte {
	if n == 0 {
		return nil
	}
	return sim.PayloadBytes(fmt.Sprintf("%s/%d", tag, id), n)
}

type ctxKey string

// countingWriter is the ResponseWriter a newresp / mw-wrap filter passes on.
type countingWriter struct {
	http.ResponseWriter
	env *chainEnv
	tag string
}

func (c *countingWriter) Write(p []byte) (int, error) {
	_, res := c.env.res()
	res.WrapIn[c.tag] += len(p)
	return c.ResponseWriter.Write(p)
}

// bufferingWriter keeps status and body until it is written out (see the swapbuf filter kind).
type bufferingWriter struct {
	hdr    http.Header
	status int
	buf    []byte
}

func (b *bufferingWriter) Header() http.Header { return b.hdr }
func (b *bufferingWriter) WriteHeader(s int) {
	if b.status == 0 {
		b.status = s
	}
}
func (b *bufferingWriter) Write(p []byte) (int, error) {
	b.buf = append(b.buf, p...)
	return len(p), nil
}

func (e *chainEnv) checkReq(req *http.Request) {
	if ReqID(req) != curReqID() {
		_, res := e.res()
		res.Foreign++
	}
}

// filter builds the FilterFunction for a spec.
func (e *chainEnv) filter(f FSpec) restful.FilterFunction {
	tag := f.tag
	body := func(req *restful.Request, resp *restful.Response, next func(*restful.Request, *restful.Response)) {
		r, res := e.res()
		e.checkReq(req.Request)
		y(sim.SiteFilterPre)
		e.ev("pre:" + tag)
		e.crash("pre:" + tag)
		e.appWrite(resp, fbytes("pre-"+tag, r.ID, f.Pre))
		own := resp
		var unswap func()
		switch f.Kind {
		case "short":
			e.ev("short:" + tag)
			return
		case "later":
			e.ev("later:" + tag)
			res.later = func() { next(req, resp) }
			return
		case "attr":
			req.SetAttribute("a-"+tag, fmt.Sprintf("%s-%d", tag, r.ID))
		case "newreq":
			n := restful.NewRequest(req.Request.WithContext(context.WithValue(req.Request.Context(), ctxKey("gen"), tag)))
			n.SetAttribute("gen", tag)
			req = n
		case "newresp":
			resp = restful.NewResponse(&countingWriter{ResponseWriter: resp.ResponseWriter, env: e, tag: tag})
			res.wrapStack = append(res.wrapStack, tag)
		case "swapbuf":
			// what http.TimeoutHandler or an ETag filter does: the writer inside the Response is swapped for
			// one that buffers everything and is written out only when the rest of the chain has returned
			// normally; when a panic passes through, the buffer is simply abandoned
			orig := resp.ResponseWriter
			bw := &bufferingWriter{hdr: orig.Header()}
			resp.ResponseWriter = bw
			unswap = func() {
				resp.ResponseWriter = orig
				if bw.status != 0 {
					orig.WriteHeader(bw.status)
				}
				if len(bw.buf) > 0 {
					orig.Write(bw.buf)
				}
			}
		}
		next(req, resp)
		if unswap != nil {
			unswap()
		}
		if f.Kind == "newresp" {
			res.wrapStack = res.wrapStack[:len(res.wrapStack)-1]
		}
		y(sim.SiteFilterPost)
		e.ev("post:" + tag)
		e.crash("post:" + tag)
		e.appWrite(own, fbytes("post-"+tag, r.ID, f.Post))
	}
	if !strings.HasPrefix(f.Kind, "mw-") {
		return func(req *restful.Request, resp *restful.Response, chain *restful.FilterChain) {
			body(req, resp, chain.ProcessFilter)
		}
	}
	// an http middleware wrapped by the adapter
	mw := func(next http.Handler) http.Handler {
		return http.HandlerFunc(func(rw http.ResponseWriter, hr *http.Request) {
			r, res := e.res()
			e.checkReq(hr)
			y(sim.SiteMiddleware)
			e.ev("pre:" + tag)
			e.crash("pre:" + tag)
			e.appWrite(rw, fbytes("pre-"+tag, r.ID, f.Pre))
			switch f.Kind {
			case "mw-short":
				e.ev("short:" + tag)
				return
			case "mw-wrap":
				res.wrapStack = append(res.wrapStack, tag)
				next.ServeHTTP(&countingWriter{ResponseWriter: rw, env: e, tag: tag}, hr.WithContext(context.WithValue(hr.Context(), ctxKey("gen"), tag)))
				res.wrapStack = res.wrapStack[:len(res.wrapStack)-1]
			default:
				next.ServeHTTP(rw, hr)
			}
			y(sim.SiteMiddleware)
			e.ev("post:" + tag)
			e.crash("post:" + tag)
			e.appWrite(rw, fbytes("post-"+tag, r.ID, f.Post))
		})
	}
	return restful.HttpMiddlewareHandlerToFilter(mw)
}

func (e *chainEnv) writeChunks(w interface{ Write([]byte) (int, error) }, r *ChainReq, flush func()) {
	off := 0
	total := len(r.payload)
	for i := 0; off < total; i++ {
		n := r.Chunks[i%len(r.Chunks)]
		if off+n > total {
			n = total - off
		}
		e.appWrite(w, r.payload[off:off+n])
		off += n
		y(sim.SiteHandler)
		if i == 0 {
			e.crash("handler:mid")
			if r.Flush && flush != nil {
				flush()
			}
		}
	}
}

func (e *chainEnv) routeFunc(req *restful.Request, resp *restful.Response) {
	r, res := e.res()
	e.checkReq(req.Request)
	y(sim.SiteHandler)
	e.ev("handler")
	res.SawAttrs = attrString(req, e.cfg)
	if v := req.Request.Context().Value(ctxKey("gen")); v != nil {
		res.SawCtx = fmt.Sprint(v)
	}
	if v := req.Attribute("gen"); v != nil {
		res.SawGen = fmt.Sprint(v)
	}
	res.SawParams = kv(req.PathParameters())
	res.SawSel = req.SelectedRoutePath()
	if r.Target == "post" && r.PanicInRead && req.Attribute("gen") == nil && req.Request.Method == "POST" {
		// the crash point "handler:before" is reached inside the entity reader: user code (an
		// UnmarshalJSON method) panics while ReadEntity holds the pooled decompressor
		req.ReadEntity(&chainPanicky{e})
	} else if r.Target == "post" && req.Attribute("gen") == nil && req.Request.Method == "POST" {
		// read the entity (through a pooled decompressor when it is gzip-coded): its token is the request's own
		var ent struct{ Tok string }
		if err := req.ReadEntity(&ent); err != nil || ent.Tok != fmt.Sprintf("tok%d", r.ID) {
			e.ev(fmt.Sprintf("entity-misread:%v:%q", err, ent.Tok))
		}
	}
	if r.EarlyHints {
		resp.AddHeader("Link", "</style.css>; rel=preload")
		resp.WriteHeader(http.StatusEarlyHints) // interim: the real status and the body follow
		resp.Header().Del("Link")
	}
	e.crash("handler:before")
	if r.AddCE {
		resp.AddHeader("Content-Encoding", "br")
	}
	if r.NoStore {
		resp.AddHeader("Cache-Control", "no-store")
	}
	if r.FlushFirst {
		resp.Flush()
	}
	e.writeChunks(resp, r, resp.Flush)
	if r.Early {
		if cw, ok := resp.ResponseWriter.(*restful.CompressingResponseWriter); ok {
			if t := sim.Cur(); t != nil {
				t.Count("fault-early-close")
			}
			cw.Close()
		}
	}
	e.crash("handler:after")
}

func attrString(req *restful.Request, cfg *ChainCfg) string {
	var parts []string
	for _, fs := range [][]FSpec{cfg.CF, cfg.SF, cfg.RF, cfg.RFT, cfg.SF2, cfg.RF2} {
		for _, f := range fs {
			if f.Kind == "attr" {
				if v := req.Attribute("a-" + f.tag); v != nil {
					parts = append(parts, fmt.Sprint(v))
				}
			}
		}
	}
	return strings.Join(parts, ",")
}

func (e *chainEnv) plainHandler(name string) http.Handler {
	return http.HandlerFunc(func(rw http.ResponseWriter, hr *http.Request) {
		r, _ := e.res()
		e.checkReq(hr)
		y(sim.SiteHandler)
		e.ev(name)
		var fl func()
		if f, ok := rw.(http.Flusher); ok {
			fl = f.Flush
		}
		e.writeChunks(rw, r, fl)
	})
}

func tagFilters(fs []FSpec, level string) {
	for i := range fs {
		fs[i].tag = fmt.Sprintf("%s%d", level, i)
	}
}

// build creates the container under test. encOff builds the twin: identical, but with every
// encoding switch off.
func (e *chainEnv) build(encOff bool) (c *restful.Container, outer *restful.Container) {
	cfg := e.cfg
	tagFilters(cfg.CF, "c")
	tagFilters(cfg.SF, "s")
	tagFilters(cfg.RF, "r")
	tagFilters(cfg.SF2, "t")
	tagFilters(cfg.RF2, "q")
	tagFilters(cfg.RFT, "x")
	c = restful.NewContainer()
	if cfg.Router == "jsr311" {
		c.Router(restful.RouterJSR311{})
	}
	// registration happens under one setting of the switch, serving under the final one: nothing may
	// remember the value it saw at registration time
	c.EnableContentEncoding(cfg.ContEncReg && !encOff)
	// the container-level settings (recovery, handlers, container filters) may be applied before or
	// after services and plain handlers are registered: both are "before serving", and nothing may
	// capture the value a setting had at registration time
	configure := func() {
		c.DoNotRecover(cfg.Recover == 0)
		if cfg.Recover == 2 {
			c.RecoverHandler(func(v interface{}, w http.ResponseWriter) {
				_, res := e.res()
				y(sim.SiteRecover)
				e.ev("recover")
				res.Recovers++
				res.RecVal = fmt.Sprint(v)
				w.WriteHeader(503)
				e.appWrite(w, []byte("recovered:"+fmt.Sprint(v)))
			})
		}
		if cfg.CustomErr {
			c.ServiceErrorHandler(func(se restful.ServiceError, req *restful.Request, resp *restful.Response) {
				e.checkReq(req.Request)
				y(sim.SiteSvcErr)
				e.ev("svcerr")
				for h, vs := range se.Header {
					for _, v := range vs {
						resp.Header().Add(h, v)
					}
				}
				resp.WriteHeader(se.Code)
				e.appWrite(resp, []byte(fmt.Sprintf("custom-error:%d", se.Code)))
			})
		}
		ncf := len(cfg.CF)
		if cfg.Warm && !encOff {
			ncf = cfg.WarmCF
		}
		for _, f := range cfg.CF[:ncf] {
			c.Filter(e.filter(f))
		}
	}
	if cfg.LateConfig {
		c.DoNotRecover(cfg.Recover != 0) // the opposite setting while registering
	} else {
		configure()
	}
	ws := new(restful.WebService).Path("/svc").Produces("application/json")
	nsf, nsf2 := len(cfg.SF), len(cfg.SF2)
	if cfg.Warm && !encOff {
		nsf, nsf2 = cfg.WarmSF, cfg.WarmSF2
	}
	for _, f := range cfg.SF[:nsf] {
		ws.Filter(e.filter(f))
	}
	rfs := cfg.RF
	mk := func(b *restful.RouteBuilder) *restful.RouteBuilder {
		b.To(e.routeFunc)
		for _, f := range rfs {
			b.Filter(e.filter(f))
		}
		if !encOff {
			switch cfg.RouteEnc {
			case 1:
				b.ContentEncodingEnabled(true)
			case 2:
				b.ContentEncodingEnabled(false)
			}
		} else if cfg.RouteEnc != 0 {
			b.ContentEncodingEnabled(false)
		}
		return b
	}
	if cfg.ReuseBuilder {
		// one RouteBuilder for both routes: what was set on it for the first route (function, filters)
		// carries over, what is set afterwards (method, path, consumes, the POST route's own encoding
		// override) must not reach back into the route already built
		b := mk(ws.GET("/data/{id}"))
		ws.Route(b)
		b.Method("POST").Path("/post").Consumes("application/json")
		if !encOff {
			switch cfg.RouteEncPost {
			case 1:
				b.ContentEncodingEnabled(true)
			case 2:
				b.ContentEncodingEnabled(false)
			}
		}
		ws.Route(b)
	} else {
		ws.Route(mk(ws.GET("/data/{id}")))
		ws.Route(mk(ws.POST("/post").Consumes("application/json")))
	}
	if cfg.Twin {
		rfs = cfg.RFT
		ws.Route(mk(ws.GET("/data/{id}").Produces("application/xml")))
		rfs = cfg.RF
	}
	// a route below a path that a service with a longer root claims (/svc/deep): that service has no
	// route for it, so the request fails routing - the longer matching root owns the URL
	ws.Route(mk(ws.GET("/deep/x/{id}")))
	c.Add(ws)
	wsDeep := new(restful.WebService).Path("/svc/deep").Produces("application/json")
	wsDeep.Route(wsDeep.GET("/only").To(e.routeFunc))
	c.Add(wsDeep)
	if cfg.RouteEncLate != 0 && !encOff {
		// the other documented way to set the override: on the registered route itself
		rs := ws.Routes()
		for i := range rs {
			if rs[i].Method == "GET" {
				rs[i].EnableContentEncoding(cfg.RouteEncLate == 1)
			}
		}
	}
	// a second service with its own filters: chains of different requests must not mix
	ws2 := new(restful.WebService).Path("/svc2").Produces("application/json")
	for _, f := range cfg.SF2[:nsf2] {
		ws2.Filter(e.filter(f))
	}
	if cfg.Warm && !encOff {
		e.late = func() {
			for _, f := range cfg.CF[cfg.WarmCF:] {
				c.Filter(e.filter(f))
			}
			for _, f := range cfg.SF[cfg.WarmSF:] {
				ws.Filter(e.filter(f))
			}
			for _, f := range cfg.SF2[cfg.WarmSF2:] {
				ws2.Filter(e.filter(f))
			}
		}
	}
	rfs = cfg.RF2
	ws2.Route(mk(ws2.GET("/data/{id}")))
	c.Add(ws2)
	if cfg.Fill > 0 {
		ws3 := new(restful.WebService).Path("/fill").Produces("application/json")
		for i := 0; i < cfg.Fill; i++ {
			rfs = []FSpec{{Kind: "pass", tag: fmt.Sprintf("f%d", i)}}
			ws3.Route(mk(ws3.GET(fmt.Sprintf("/r%d/{id}", i))))
		}
		c.Add(ws3)
	}
	c.Handle("/plain/", e.plainHandler("plain"))
	c.HandleWithFilter("/plainf/", e.plainHandler("plainf"))
	c.EnableContentEncoding(cfg.ContEnc && !encOff)
	if cfg.LateConfig {
		configure()
	}
	if cfg.Entry == "Nested" || cfg.Entry == "NestedFilter" {
		outer = restful.NewContainer()
		outer.EnableContentEncoding(!encOff)
		var mounted http.Handler = c
		if cfg.OuterPrefix > 0 {
			mounted = http.HandlerFunc(func(rw http.ResponseWriter, hr *http.Request) {
				r, _ := e.res()
				e.appWrite(rw, fbytes("outer", r.ID, cfg.OuterPrefix))
				c.ServeHTTP(rw, hr)
				if f, ok := rw.(http.Flusher); ok && cfg.OuterPrefix%2 == 0 {
					f.Flush() // a streaming middleware pushes out what the inner handler left behind
				}
			})
		}
		if cfg.Entry == "Nested" {
			outer.Handle("/", mounted)
		} else {
			outer.HandleWithFilter("/", mounted)
		}
	}
	return c, outer
}

// httpReq builds the request for a ChainReq.
func (r *ChainReq) httpReq(t *sim.Task) *http.Request {
	hdr := map[string]string{}
	if r.AE != "" {
		hdr["Accept-Encoding"] = r.AE
	}
	switch r.Target {
	case "route":
		return NewReq("GET", fmt.Sprintf("/svc/data/tok%d%s", r.ID, r.pad()), hdr, nil, 0, r.ID)
	case "route2":
		return NewReq("GET", fmt.Sprintf("/svc2/data/tok%d", r.ID), hdr, nil, 0, r.ID)
	case "twin":
		hdr["Accept"] = "application/xml"
		return NewReq("GET", fmt.Sprintf("/svc/data/tok%d", r.ID), hdr, nil, 0, r.ID)
	case "post":
		hdr["Content-Type"] = "application/json"
		data := []byte(fmt.Sprintf(`{"Tok":"tok%d"}`, r.ID))
		if r.BodyGzip {
			data = Gzip(data)
			hdr["Content-Encoding"] = "gzip"
		}
		return NewReq("POST", "/svc/post", hdr, &sim.SimBody{T: t, Data: data, Chunks: []int{7, 64}}, int64(len(data)), r.ID)
	case "notfound":
		return NewReq("GET", "/svc/none/at/all", hdr, nil, 0, r.ID)
	case "shadowed":
		return NewReq("GET", fmt.Sprintf("/svc/deep/x/tok%d", r.ID), hdr, nil, 0, r.ID)
	case "muxnotfound":
		return NewReq("GET", "/elsewhere", hdr, nil, 0, r.ID)
	case "badmethod":
		return NewReq("PUT", "/svc/data/7", hdr, nil, 0, r.ID)
	case "notacceptable":
		hdr["Accept"] = "text/plain"
		return NewReq("GET", "/svc/data/7", hdr, nil, 0, r.ID)
	case "unsupported":
		hdr["Content-Type"] = "text/xml"
		return NewReq("POST", "/svc/post", hdr, &sim.SimBody{T: t, Data: []byte("<a/>")}, 4, r.ID)
	case "plain":
		return NewReq("GET", "/plain/x", hdr, nil, 0, r.ID)
	case "plainf":
		return NewReq("GET", "/plainf/x", hdr, nil, 0, r.ID)
	}
	if i, ok := fillIndex(r.Target); ok {
		return NewReq("GET", fmt.Sprintf("/fill/r%d/tok%d", i, r.ID), hdr, nil, 0, r.ID)
	}
	panic("harness: unknown target " + r.Target)
}

// filtersFor returns the filters that run for a target, in order.
func (cfg *ChainCfg) filtersFor(target string) []FSpec {
	var fs []FSpec
	switch target {
	case "route", "post":
		fs = append(fs, cfg.CF...)
		fs = append(fs, cfg.SF...)
		fs = append(fs, cfg.RF...)
	case "route2":
		fs = append(fs, cfg.CF...)
		fs = append(fs, cfg.SF2...)
		fs = append(fs, cfg.RF2...)
	case "twin":
		fs = append(fs, cfg.CF...)
		fs = append(fs, cfg.SF...)
		fs = append(fs, cfg.RFT...)
	case "notfound", "badmethod", "notacceptable", "unsupported", "plainf", "shadowed":
		fs = append(fs, cfg.CF...)
	case "muxnotfound":
		if cfg.Entry == "Dispatch" { // Dispatch bypasses the mux: the router answers 404 inside the container filters
			fs = append(fs, cfg.CF...)
		}
	default:
		if i, ok := fillIndex(target); ok {
			fs = append(fs, cfg.CF...)
			fs = append(fs, FSpec{Kind: "pass", tag: fmt.Sprintf("f%d", i)})
		}
	}
	return fs
}

func targetEvent(cfg *ChainCfg, target string) string {
	if _, ok := fillIndex(target); ok {
		return "handler"
	}
	switch target {
	case "route", "post", "route2", "twin":
		return "handler"
	case "plain", "plainf":
		if cfg.Entry == "Dispatch" {
			// Dispatch bypasses the ServeMux: plain handlers are unreachable, the router answers 404
			if cfg.CustomErr {
				return "svcerr"
			}
			return ""
		}
		return target
	case "muxnotfound":
		if cfg.Entry == "Dispatch" && cfg.CustomErr {
			return "svcerr"
		}
		return ""
	default:
		if cfg.CustomErr {
			return "svcerr"
		}
		return ""
	}
}

// effectiveFilters accounts for Dispatch reaching plain targets through the router (404 path).
func (cfg *ChainCfg) effectiveFilters(target string) []FSpec {
	if cfg.Entry == "Dispatch" && (target == "plain" || target == "plainf") {
		return append([]FSpec{}, cfg.CF...)
	}
	return cfg.filtersFor(target)
}

// model is the filter-order reference: the expected event sequence of one request and the list of
// crash points reachable on the way. A list walk, nothing else.
func (cfg *ChainCfg) model(r *ChainReq) (events []string, points []string) {
	fs := cfg.effectiveFilters(r.Target)
	tgt := targetEvent(cfg, r.Target)
	var tail []string         // what runs after the entry point returned (see the "later" filter kind)
	var walk func(i int) bool // false: aborted by the injected panic
	hit := func(p string) bool {
		points = append(points, p)
		return r.PanicAt == p
	}
	walk = func(i int) bool {
		if i == len(fs) {
			if tgt == "" {
				return true
			}
			events = append(events, tgt)
			if tgt == "handler" {
				if hit("handler:before") {
					return false
				}
				if len(r.payload) > 0 {
					if hit("handler:mid") {
						return false
					}
				}
				if hit("handler:after") {
					return false
				}
			}
			return true
		}
		f := fs[i]
		events = append(events, "pre:"+f.tag)
		if hit("pre:" + f.tag) {
			return false
		}
		if f.Kind == "short" || f.Kind == "mw-short" {
			events = append(events, "short:"+f.tag)
			return true
		}
		if f.Kind == "later" {
			// the filter returns at once (no post event of its own) and the filters before it finish; the
			// rest of the chain runs later, complete
			events = append(events, "later:"+f.tag)
			saved := events
			events = nil
			ok := walk(i + 1)
			tail = append(tail, events...)
			events = saved
			return ok
		}
		if !walk(i + 1) {
			return false
		}
		events = append(events, "post:"+f.tag)
		if hit("post:" + f.tag) {
			return false
		}
		return true
	}
	completed := walk(0)
	events = append(events, tail...)
	if !completed && cfg.Recover == 2 {
		events = append(events, "recover")
	}
	return events, points
}

// ---- generation -------------------------------------------------------------------------------

type chainKnobs struct {
	maxFilters   int
	maxCF        int // container filters (0: maxFilters); append-growth capacities make 3, 5, 6, 7 interesting
	twoServices  bool
	richFilters  bool // use short/attr/newreq/newresp/mw-* kinds
	encoding     bool
	panics       int // permille of requests that panic
	errors       bool
	plain        bool
	nested       bool
	maxPayload   int
	filterWrites bool
	early        bool
	warm         bool // allow a warm-up phase before all filters are registered
	wfaults      int  // permille of requests whose client goes away (writer starts failing)
	swapbuf      bool // filter kind swapbuf (buffering writer swapped into the Response)
	addCE        bool // a share of the route functions add their own Content-Encoding value
	cancels      int  // permille of non-panicking requests whose context is cancelled at some point
	later        bool // allow the "later" route filter (C06)
}

func genFilters(tp *sim.Tape, k chainKnobs, max int) []FSpec {
	var fs []FSpec
	kinds := []string{"pass"}
	if k.richFilters {
		kinds = []string{"pass", "attr", "short", "newreq", "newresp", "mw-pass", "mw-wrap", "mw-short", "pass", "attr"}
	}
	if k.swapbuf {
		kinds = append(append([]string{}, kinds...), "swapbuf")
	}
	tp.Repeat(0, max, 550, func(int) {
		f := FSpec{Kind: kinds[tp.G(len(kinds))]}
		if k.filterWrites {
			if tp.Chance(400) {
				f.Pre = tp.Range(1, 40)
			}
			if tp.Chance(300) {
				f.Post = tp.Range(1, 40)
			}
		}
		fs = append(fs, f)
	})
	return fs
}

func genChainCfg(tp *sim.Tape, k chainKnobs) *ChainCfg {
	cfg := &ChainCfg{}
	// "Mux": the container's ServeMux used directly as the http.Handler (a documented way to mount a
	// container); routed requests then reach dispatch without ServeHTTP's compressing writer, and the
	// Handle wrapper is the one that encodes plain-handler responses
	entries := []string{"ServeHTTP", "Dispatch", "Mux"}
	if k.nested {
		entries = append(entries, "Nested", "NestedFilter")
	}
	cfg.Entry = entries[tp.G(len(entries))]
	cfg.Router = []string{"curly", "jsr311"}[tp.G(2)]
	if k.encoding {
		cfg.ContEnc = tp.G(3) != 2
		cfg.ContEncReg = cfg.ContEnc
		if tp.Chance(250) {
			cfg.ContEncReg = !cfg.ContEnc
		}
		cfg.RouteEnc = tp.G(3)
		switch tp.G(4) {
		case 0:
			cfg.Provider = "syncpool"
		case 1, 2:
			cfg.Provider = "bounded"
			cfg.WCap = []int{1, 0, 2, 8}[tp.G(4)]
			cfg.RCap = 1
		case 3:
			cfg.Provider = "lifo"
		}
	}
	cfg.Recover = tp.G(3)
	cfg.CustomErr = tp.Bool()
	cfg.Flusher = tp.Bool()
	cfg.Trace = tp.Chance(300)
	cfg.LateConfig = tp.Chance(300)
	if tp.Chance(250) {
		cfg.ReuseBuilder = true
		if k.encoding {
			cfg.RouteEncPost = tp.G(3)
		}
	}
	if k.encoding && tp.Chance(150) {
		cfg.RouteEncLate = 1 + tp.G(2)
	}
	cfg.Pretty = true
	ncf := k.maxFilters
	if k.maxCF > 0 {
		ncf = k.maxCF
	}
	cfg.CF = genFilters(tp, k, ncf)
	cfg.SF = genFilters(tp, k, k.maxFilters)
	cfg.RF = genFilters(tp, k, k.maxFilters)
	if k.twoServices {
		cfg.SF2 = genFilters(tp, k, k.maxFilters)
		cfg.RF2 = genFilters(tp, k, k.maxFilters)
	}
	cfg.Preempt = []int{300, 100, 500, 30}[tp.G(4)]
	tagFilters(cfg.CF, "c")
	tagFilters(cfg.SF, "s")
	tagFilters(cfg.RF, "r")
	tagFilters(cfg.SF2, "t")
	tagFilters(cfg.RF2, "q")
	if strings.HasPrefix(cfg.Entry, "Nested") && tp.Chance(300) {
		cfg.OuterPrefix = 1 + tp.G(40)
	}
	if k.warm && tp.Chance(300) && !strings.HasPrefix(cfg.Entry, "Nested") {
		cfg.Warm = true
		cfg.WarmCF = tp.G(len(cfg.CF) + 1)
		cfg.WarmSF = tp.G(len(cfg.SF) + 1)
		cfg.WarmSF2 = tp.G(len(cfg.SF2) + 1)
		cfg.WarmFlip = tp.Chance(400)
	}
	if !cfg.ReuseBuilder && tp.Chance(250) {
		cfg.Twin = true
		cfg.RFT = append([]FSpec{}, cfg.RF...)
		tagFilters(cfg.RFT, "x")
	}
	if k.later && !cfg.Twin && tp.Chance(60) {
		cfg.Later = true
		if len(cfg.RF) == 0 {
			cfg.RF = []FSpec{{Kind: "pass"}}
		}
		cfg.RF = append([]FSpec{{Kind: "later"}}, cfg.RF...) // the other route filters run in the continuation
		tagFilters(cfg.RF, "r")
	}
	return cfg
}

// isRouted: the request reaches a route function (unless a filter stops it).
func isRouted(target string) bool {
	_, fill := fillIndex(target)
	return fill || target == "route" || target == "post" || target == "route2" || target == "twin"
}

// the last two name no coding the library knows: a wildcard is not a mention of gzip (the statement:
// "the request's Accept-Encoding mentioned that coding"), and `*;q=0` refuses everything not named
var chainAEs = []string{"gzip", "deflate", "", "gzip, deflate", "deflate, gzip", "identity", "br", "gzip;q=0", "GZIP", "x-gzip, deflate;q=0.5", "br, *;q=0.1", "identity, *;q=0"}

func genChainReq(tp *sim.Tape, cfg *ChainCfg, k chainKnobs, id int) *ChainReq {
	r := &ChainReq{ID: id}
	targets := []string{"route", "route", "post"}
	if k.errors {
		targets = append(targets, "notfound", "badmethod", "notacceptable", "unsupported", "muxnotfound", "shadowed")
	}
	if k.plain {
		targets = append(targets, "plain", "plainf")
	}
	if k.twoServices {
		targets = append(targets, "route2", "route2")
	}
	if cfg.Twin {
		targets = append(targets, "twin", "twin")
	}
	r.Target = targets[tp.G(len(targets))]
	if k.encoding {
		r.AE = chainAEs[tp.G(len(chainAEs))]
		if tp.Chance(60) {
			r.PreCE = []string{"br", "gzip", "identity"}[tp.G(3)] // identity: a value too - "the writer already carried a Content-Encoding"
		}
	}
	r.N = tp.G(k.maxPayload + 1)
	if tp.Chance(120) {
		r.N = 0
	}
	if k.encoding && tp.Chance(40) {
		// sizes around the buffer and window boundaries of bufio / flate
		r.N = []int{4095, 4096, 4097, 32767, 32768, 32769, 65535, 65536, 65537}[tp.G(9)]
	}
	r.Chunks = chunkPlan(tp, tp.Range(1, 4), 1+r.N)
	r.payload = sim.PayloadBytes(fmt.Sprintf("h%d", id), r.N)
	r.Flush = cfg.Flusher && tp.Chance(200)
	if k.early && tp.Chance(80) {
		r.Early = true
	}
	if tp.Chance(k.panics) {
		_, pts := cfg.model(r)
		if len(pts) > 0 {
			r.PanicAt = pts[tp.G(len(pts))]
			r.PanicKind = tp.G(7)
			r.PanicInRead = r.Target == "post" && r.PanicAt == "handler:before" && tp.Bool()
		}
	} else if k.cancels > 0 && tp.Chance(k.cancels) {
		_, pts := cfg.model(r)
		r.CancelAt = append([]string{"start", "deadline"}, pts...)[tp.G(len(pts)+2)]
	}
	if tp.Chance(k.wfaults) {
		r.WFail = 1 + tp.G(4)
	}
	if r.Target == "post" && k.encoding {
		r.BodyGzip = tp.Bool()
	}
	if k.encoding && isRouted(r.Target) {
		r.NoStore = tp.Chance(80)
		r.EarlyHints = tp.Chance(60)
		r.FlushFirst = cfg.Flusher && tp.Chance(120)
	}
	if k.addCE && isRouted(r.Target) && r.PanicAt == "" && tp.Chance(50) {
		r.AddCE = true
	}
	r.LongPath = r.Target == "route" && tp.Chance(25)
	if cfg.Later && (r.Target == "route" || r.Target == "post") {
		// the continuation runs outside every recover and after the writer is done: no faults in these requests
		r.PanicAt, r.PanicKind, r.PanicInRead, r.CancelAt, r.WFail = "", 0, false, "", 0
	}
	if r.Early {
		// a handler that closes the response writer itself is only meaningful if nothing is written afterwards
		if r.PanicAt != "" {
			r.Early = false
		}
		for _, f := range cfg.effectiveFilters(r.Target) {
			if f.Post > 0 {
				r.Early = false
			}
		}
	}
	return r
}

// ---- execution ----------------------------------------------------------------------------------

type chainRun struct {
	env   *chainEnv
	c     *restful.Container
	outer *restful.Container
	twinC *restful.Container
	twinO *restful.Container
}

func installProvider(s *sim.Sim, cfg *ChainCfg) {
	var inner restful.CompressorProvider
	switch cfg.Provider {
	case "bounded":
		inner = restful.NewBoundedCachedCompressors(cfg.WCap, cfg.RCap)
	case "lifo":
		inner = sim.NewLIFOProvider()
	default:
		inner = restful.NewSyncPoolCompessors()
	}
	restful.SetCompressorProvider(&sim.LedgerProvider{Inner: inner, Sim: s})
	if cfg.RawProvider && cfg.Provider != "lifo" {
		// as it is, without the ledger: optional interfaces of the real provider stay visible to the library
		restful.SetCompressorProvider(inner)
		s.Counts["reach:provider-without-ledger"]++
	}
}

func newChainRun(s *sim.Sim, cfg *ChainCfg, reqs []*ChainReq) *chainRun {
	env := &chainEnv{cfg: cfg, byID: map[int]*ChainReq{}}
	for _, r := range reqs {
		env.byID[r.ID] = r
		for v := 0; v < 2; v++ {
			r.res[v] = &ChainRes{WrapIn: map[string]int{}, WrapWant: map[string]int{}}
		}
	}
	installProvider(s, cfg)
	restful.EnableTracing(cfg.Trace)
	restful.PrettyPrintResponses = cfg.Pretty
	cr := &chainRun{env: env}
	cr.c, cr.outer = env.build(false)
	if cfg.Warm && env.late != nil {
		// history: one request per service while only part of the filters exists, then the rest is registered
		early := *cfg
		early.CF, early.SF, early.SF2 = cfg.CF[:cfg.WarmCF], cfg.SF[:cfg.WarmSF], cfg.SF2[:cfg.WarmSF2]
		if cfg.WarmFlip {
			cr.c.EnableContentEncoding(!cfg.ContEnc)
			cr.c.DoNotRecover(cfg.Recover != 0)
		}
		targets := []string{"route", "route2"}
		if cfg.Twin {
			targets = append(targets, "twin")
		}
		for i, target := range targets {
			wr := &ChainReq{ID: 9001 + i, Target: target, N: 20, Chunks: []int{20}}
			if cfg.WarmFlip {
				wr.AE = "gzip"
			}
			wr.payload = sim.PayloadBytes(fmt.Sprintf("warm%d", i), wr.N)
			wr.res[0] = &ChainRes{WrapIn: map[string]int{}, WrapWant: map[string]int{}}
			env.byID[wr.ID] = wr
			seqReq, seqVariant = wr.ID, 0
			cr.serve(nil, wr, 0)
			cr.resume(nil, wr)
			seqReq = 0
			if want, _ := early.model(wr); !eventsEqual(wr.res[0].Events, want) {
				s.Violate("filter-order", "warm-up request to %s with %d container and %d/%d service filters registered: events %v, the filter-order model gives %v", target, cfg.WarmCF, cfg.WarmSF, cfg.WarmSF2, wr.res[0].Events, want)
			}
		}
		if cfg.WarmFlip {
			cr.c.EnableContentEncoding(cfg.ContEnc)
			cr.c.DoNotRecover(cfg.Recover == 0)
		}
		env.late()
		s.Counts["reach:filters-registered-after-first-request"] = 1
	}
	cr.twinC, cr.twinO = env.build(true)
	return cr
}

func (cr *chainRun) serve(t *sim.Task, r *ChainReq, variant int) {
	res := r.res[variant]
	c, outer := cr.c, cr.outer
	if variant == 1 {
		c, outer = cr.twinC, cr.twinO
	}
	w := sim.NewSimWriter(t)
	if r.PreCE != "" {
		w.H.Set("Content-Encoding", r.PreCE)
	}
	res.W = w
	if variant == 0 && r.WFail > 0 {
		w.FaultMode, w.FailAt = sim.WFaultFail, r.WFail-1
	}
	var rw http.ResponseWriter = w
	if cr.env.cfg.Flusher {
		rw = sim.SimFlushWriter{SimWriter: w}
	}
	hr := r.httpReq(t)
	if variant == 1 {
		hr.Header.Del("Accept-Encoding")
	}
	{
		// as with net/http's server: cancellable, and cancelled when the exchange is over
		ctx, cancel := context.WithCancel(hr.Context())
		hr = hr.WithContext(ctx)
		defer cancel()
	}
	if r.CancelAt != "" {
		ctx, cancel := context.WithCancel(hr.Context())
		if r.CancelAt == "deadline" {
			// a deadline that has passed already (on any clock): the request arrives too late
			ctx, cancel = context.WithDeadline(hr.Context(), time.Unix(1, 0))
			if t != nil {
				t.Count("fault-context-cancelled")
			}
		}
		hr = hr.WithContext(ctx)
		res.cancel = cancel
		if r.CancelAt == "start" {
			cancel()
			if t != nil {
				t.Count("fault-context-cancelled")
			}
		}
	}
	func() {
		defer func() {
			if p := recover(); p != nil {
				res.Escaped = p
			}
		}()
		switch cr.env.cfg.Entry {
		case "Dispatch":
			c.Dispatch(rw, hr)
		case "Mux":
			c.ServeMux.ServeHTTP(rw, hr)
		case "Nested", "NestedFilter":
			outer.ServeHTTP(rw, hr)
		default:
			c.ServeHTTP(rw, hr)
		}
	}()
	if w.Fired > 0 && t != nil {
		t.Count("fault-wfail")
	}
}

// resume runs the rest of a chain that a "later" filter kept, on behalf of request r.
func (cr *chainRun) resume(t *sim.Task, r *ChainReq) {
	res := r.res[0]
	if res == nil || res.later == nil {
		return
	}
	f := res.later
	res.later = nil
	if t != nil {
		t.Req = r.ID
		t.Count("reach:chain-continued-after-the-call-returned")
	} else {
		seqReq = r.ID
	}
	f()
}

// age serves the scenario's aging requests sequentially on the live container, before any client starts.
func (cr *chainRun) age(s *sim.Sim, sc *chainScen) {
	aged := sc.agedReqs()
	if len(aged) == 0 {
		return
	}
	seqVariant = 0
	var prev *ChainReq
	for _, r := range aged {
		seqReq = r.ID
		cr.serve(nil, r, 0)
		if prev != nil {
			cr.resume(nil, prev)
		}
		prev = r
	}
	if prev != nil {
		cr.resume(nil, prev)
	}
	seqReq = 0
	s.Counts["reach:aged-container"]++
	s.Counts["aging-requests"] += len(aged)
}

// twin serves every request sequentially on the twin (encoding off everywhere): the bytes the
// application and the library write for that request when no coding is involved.
func (cr *chainRun) twin(reqs []*ChainReq) {
	seqVariant = 1
	for _, r := range reqs {
		seqReq = r.ID
		cr.serve(nil, r, 1)
	}
	seqVariant = 0
	seqReq = 0
}

func eventsEqual(a, b []string) bool {
	if len(a) != len(b) {
		return false
	}
	for i := range a {
		if a[i] != b[i] {
			return false
		}
	}
	return true
}

// expectedBody is what the client must see after decoding: the twin's body when the library
// produced part of it, the harness's own record otherwise (they are cross-checked when both exist).
func expectedBody(r *ChainReq) []byte {
	return r.res[1].W.Body
}

func bodyEqualModuloStack(got, want []byte) bool {
	// the default recover handler writes a stack whose line numbers differ between the encoded and
	// the plain path through ServeHTTP; compare up to and including the first line of its output
	const marker = "recover from panic situation: - "
	gi := bytes.Index(got, []byte(marker))
	wi := bytes.Index(want, []byte(marker))
	if gi < 0 || wi < 0 {
		return bytes.Equal(got, want)
	}
	ge := bytes.Index(got[gi:], []byte("\r\n"))
	we := bytes.Index(want[wi:], []byte("\r\n"))
	if ge < 0 || we < 0 {
		return false
	}
	return bytes.Equal(got[:gi+ge], want[:wi+we])
}
