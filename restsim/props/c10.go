package props

import (
	"fmt"
	"strings"

	restful "github.com/emicklei/go-restful/v3"

	"restsim/sim"
)

func init() {
	register(&PropInfo{ID: "C10", Run: runC10, UseRace: false, Level: "fault_enumeration", Enum: func(string) int { return len(c10Table) }})
}

// The enumerated family: every single crash point of every configuration with at most two
// (passing) filters per level x recovery {custom, default, off} x coding {none, gzip, deflate}
// x entry {ServeHTTP, Dispatch}.
type c10Enum struct {
	nC, nS, nR int
	recover    int
	enc        string
	entry      string
	point      int
}

var c10Table = func() []c10Enum {
	var t []c10Enum
	for nC := 0; nC <= 2; nC++ {
		for nS := 0; nS <= 2; nS++ {
			for nR := 0; nR <= 2; nR++ {
				for rec := 0; rec < 3; rec++ {
					for _, enc := range []string{"", "gzip", "deflate"} {
						for _, entry := range []string{"ServeHTTP", "Dispatch"} {
							np := 2*(nC+nS+nR) + 3
							for p := 0; p < np; p++ {
								t = append(t, c10Enum{nC, nS, nR, rec, enc, entry, p})
							}
						}
					}
				}
			}
		}
	}
	return t
}()

func runC10(x *Ctx) {
	tp := x.Tape
	e := tp.G(len(c10Table) + 1)
	var sc *chainScen
	k := chainKnobs{swapbuf: true, cancels: 40, maxFilters: 2, richFilters: false, encoding: true, warm: true, panics: 600, errors: true, plain: true, nested: true, maxPayload: 1500, filterWrites: true}
	if e > 0 {
		en := c10Table[e-1]
		cfg := &ChainCfg{Entry: en.entry, Router: "curly", ContEnc: en.enc != "", Provider: "bounded", WCap: 1, RCap: 1, Recover: (en.recover + 2) % 3, Pretty: true, Preempt: 0}
		mk := func(n int) []FSpec {
			var fs []FSpec
			for i := 0; i < n; i++ {
				fs = append(fs, FSpec{Kind: "pass", Pre: 3 * (i % 2), Post: 2 * ((i + 1) % 2)})
			}
			return fs
		}
		cfg.CF, cfg.SF, cfg.RF = mk(en.nC), mk(en.nS), mk(en.nR)
		tagFilters(cfg.CF, "c")
		tagFilters(cfg.SF, "s")
		tagFilters(cfg.RF, "r")
		mkReq := func(id int) *ChainReq {
			r := &ChainReq{ID: id, Target: "route", AE: en.enc, N: 600, Chunks: []int{250}}
			r.payload = sim.PayloadBytes(fmt.Sprintf("h%d", id), r.N)
			return r
		}
		warm, bad, after := mkReq(1), mkReq(2), mkReq(3)
		_, pts := cfg.model(bad)
		bad.PanicAt = pts[en.point%len(pts)]
		bad.AddSvc = true
		sc = &chainScen{Cfg: cfg, Clients: [][]*ChainReq{{warm, bad, after}}}
		x.Count("enumerated-crash-points")
	} else {
		maxClients, maxReqs := 3, 4
		if x.Thorough() {
			maxClients, maxReqs = 4, 8
			k.maxPayload = 40000
		}
		sc = genChainScen(x, k, 1, maxClients, maxReqs)
		// plain handlers are not filters or route functions: crash points only in filters there
		for _, r := range sc.live() {
			if r.PanicAt != "" {
				r.AddSvc = true
			}
		}
		// every client ends with a normal request: the container must still serve
		id := len(sc.live())
		for ci := range sc.Clients {
			id++
			r := &ChainReq{ID: id, Target: "route", AE: []string{"gzip", "deflate", ""}[tp.G(3)], N: 200, Chunks: []int{64}}
			r.payload = sim.PayloadBytes(fmt.Sprintf("h%d", id), r.N)
			sc.Clients[ci] = append(sc.Clients[ci], r)
		}
	}
	x.Res.Scenario = sc
	x.Res.ScenHash = sim.HashString(jsonStr(sc))
	s := x.Sim
	s.Preempt = sc.Cfg.Preempt
	reqs := sc.all()
	cr := newChainRun(s, sc.Cfg, reqs)
	extra := map[int]string{}
	for _, r := range reqs {
		if r.AddSvc {
			xr := &ChainReq{ID: 1000 + r.ID, Target: "route"}
			xr.res[0] = &ChainRes{WrapIn: map[string]int{}, WrapWant: map[string]int{}}
			cr.env.byID[xr.ID] = xr
		}
	}
	cr.age(s, sc)
	runClients(s, cr, sc, func(t *sim.Task, r *ChainReq) {
		if !r.AddSvc {
			return
		}
		t.Req = 1000 + r.ID
		// a write-lock acquisition right after the panicking request: a leaked read lock shows as a deadlock
		root := fmt.Sprintf("/extra%d", r.ID)
		ws := new(restful.WebService).Path(root)
		ws.Route(ws.GET("/ping").To(func(req *restful.Request, resp *restful.Response) { resp.Write([]byte("pong")) }))
		cr.c.Add(ws)
		w := sim.NewSimWriter(t)
		esc := Serve(cr.c, EntryServeHTTP, w, NewReq("GET", root+"/ping", nil, nil, 0, r.ID))
		extra[r.ID] = fmt.Sprintf("%d pong=%v %v", w.Status(), strings.Contains(string(w.Body), "pong"), esc)
	})
	if !s.Run() {
		return
	}
	s.MergeCounts()
	checkNoEscapes(x, s)
	cr.twin(reqs)
	cfg := sc.Cfg
	panics := 0
	for _, r := range reqs {
		res := r.res[0]
		what := fmt.Sprintf("request %d (%s via %s, recover=%s, Accept-Encoding=%q, crash point %q)", r.ID, r.Target, cfg.Entry, []string{"off", "default", "custom"}[cfg.Recover], r.AE, r.PanicAt)
		val := r.panicText()
		if !res.Panicked {
			if r.PanicAt != "" {
				x.Violate("infra-crash-point-missed", "%s: the crash point was never reached", what)
			}
			if res.Escaped != nil {
				x.Violate("spurious-panic", "%s: no panic was injected but %v escaped", what, res.Escaped)
			}
			if cfg.Recover == 2 && res.Recovers != 0 {
				x.Violate("recover-handler-spurious", "%s: recover handler called %d times without a panic", what, res.Recovers)
			}
			continue
		}
		panics++
		if cfg.Recover == 0 {
			if fmt.Sprint(res.Escaped) != val || (r.PanicKind == 2 && res.Escaped != res.PanicVal) {
				x.Violate("panic-not-propagated", "%s: recovery is off but the caller saw %v instead of the panic value (kind %d)", what, res.Escaped, r.PanicKind)
			}
		} else {
			if res.Escaped != nil {
				x.Violate("panic-escaped", "%s: the panic escaped the entry point with recovery on", what)
				continue
			}
			if cfg.Recover == 2 && (res.Recovers != 1 || res.RecVal != val) {
				x.Violate("recover-handler-calls", "%s: recover handler called %d times with %q", what, res.Recovers, res.RecVal)
			}
		}
		// the stream must be complete and decodable whatever happened
		if cl := res.W.H.Get("Content-Length"); cl != "" && cl != fmt.Sprint(len(res.W.Body)) && res.W.Fired == 0 {
			x.Violate("undecodable-after-panic", "%s: the response declares Content-Length %s but %d body bytes were sent: the client does not get a complete body", what, cl, len(res.W.Body))
			continue
		}
		ce := res.W.H.Get("Content-Encoding")
		if r.PreCE != "" {
			ce = ""
		}
		got, err := Decode(ce, res.W.Body)
		if err != nil {
			x.Violate("undecodable-after-panic", "%s: the %s body does not decode completely: %v", what, ce, err)
			continue
		}
		if cfg.Recover != 0 {
			marker := "recover from panic situation: - " + val + "\r\n"
			if cfg.Recover == 2 {
				marker = "recovered:" + val
			}
			if n := strings.Count(string(got), marker); n != 1 {
				x.Violate("recover-output", "%s: the recover handler's output appears %d times in the decoded body (%q)", what, n, clip(string(got), 80))
			}
			if res.AppP == 0 && res.StatusP == 0 {
				// nothing had been written before the panic: the client sees the handler's status and body
				wantStatus := 500
				if cfg.Recover == 2 {
					wantStatus = 503
				}
				if res.W.Status() != wantStatus {
					x.Violate("recover-status", "%s: nothing had been written before the panic but the client sees status %d, not the recover handler's %d", what, res.W.Status(), wantStatus)
				}
				if !strings.HasPrefix(string(got), marker) {
					x.Violate("recover-output", "%s: nothing had been written before the panic but the body starts with %q", what, clip(string(got), 60))
				}
				x.Count("reach:panic-before-any-output")
			}
		}
		if !bodyEqualModuloStack(got, r.res[1].W.Body) {
			x.Violate("body-after-panic-differs", "%s: decoded body %d bytes (%q) differs from the same request without encoding, %d bytes (%q)", what, len(got), clip(string(got), 60), len(r.res[1].W.Body), clip(string(r.res[1].W.Body), 60))
		}
	}
	// every other response must be exactly what it would have been otherwise
	for _, r := range reqs {
		res, tw := r.res[0], r.res[1]
		if res.Panicked {
			if want := "200 pong=true <nil>"; r.AddSvc && extra[r.ID] != want {
				x.Violate("container-unusable", "after request %d panicked, a newly added service answered %q instead of %q", r.ID, extra[r.ID], want)
			}
			continue
		}
		ce := res.W.H.Get("Content-Encoding")
		if r.PreCE != "" {
			ce = ""
		}
		got, err := Decode(ce, res.W.Body)
		if err != nil || !bodyEqualModuloStack(got, tw.W.Body) || res.W.Status() != tw.W.Status() {
			x.Violate("container-unusable", "request %d (%s, no panic) on a container that saw %d panics: status %d body %d bytes (decode error %v); alone it gives status %d body %d bytes", r.ID, r.Target, panics, res.W.Status(), len(got), err, tw.W.Status(), len(tw.W.Body))
		}
	}
	for _, e := range s.Events() {
		if e.Kind == "use-after-release" {
			x.Violate("use-after-release", "request %d: a released %s was used", e.Req, e.S)
		}
	}
	x.Res.Nontrivial = panics > 0
}
