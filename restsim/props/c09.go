package props

import (
	"fmt"
	"sort"
	"strings"

	restful "github.com/emicklei/go-restful/v3"

	"restsim/sim"
)

func init() {
	register(&PropInfo{ID: "C09", Run: runC09, UseRace: true, Level: "exploration"})
}

type c09Req struct {
	ID     int    `json:"id"`
	Method string `json:"method"`
	Path   string `json:"path"`
	Origin string `json:"origin,omitempty"`
	ACRM   string `json:"acrm,omitempty"`
	ACRH   string `json:"acrh,omitempty"`
	ACRH2  string `json:"acrh_second_header_line,omitempty"` // Access-Control-Request-Headers sent as two header lines: one list (RFC 9110 5.3)

	w      *sim.SimWriter
	events []string
	resp   string
	call   int64 // stamps of the simulator's global event order
	ret    int64
}

type c09Scen struct {
	Router     string      `json:"router"`
	Methods    []string    `json:"allowed_methods"` // empty: computed per request
	Headers    []string    `json:"allowed_headers"`
	Domains    []string    `json:"allowed_domains"`
	Cookies    bool        `json:"cookies"`
	MaxAge     int         `json:"max_age"`
	Expose     []string    `json:"expose_headers"`
	Trace      bool        `json:"trace"`
	UseDefault bool        `json:"filter_uses_default_container"` // Container field left nil: the filter asks restful.DefaultContainer
	Preempt    int         `json:"preempt_permille"`
	Clients    [][]*c09Req `json:"clients"`
	AddRoute   bool        `json:"admin_adds_route"`
	DelRoute   bool        `json:"admin_removes_route_instead,omitempty"` // the admin task removes POST /a/x instead of adding PUT /a/x
	Verbs      bool        `json:"custom_verb_routes,omitempty"`          // POST /a/y/{id}:cancel and DELETE /a/x:purge are registered too
	// Noise: the long-lived server. Before its change the admin task sends one preflight to every URL of
	// the scenario and then so many preflights to as many different URLs; after the change one more. None
	// of them is judged; what they leave behind must not show in the judged answers.
	Noise int `json:"noise_preflights_before_the_change,omitempty"`
}

var c09URLs = []string{"/a/x", "/a/y", "/a/y/7", "/b/z", "/a/none", "/a/y/7/", "/a/x/", "/a/y/7/extra/", "/a/y/", "/a/v1.0/items", "/a/v1x0/items", "/a/v1.0/items/", "/b/z+z", "/b/zzz"}

var c09VerbURLs = []string{"/a/y/7:cancel", "/a/y/cance", "/a/x:purge", "/a/y/7:other", "/a/y/cance/", "/a/x:purge/"}

func genC09(x *Ctx) *c09Scen {
	tp := x.Tape
	sc := &c09Scen{}
	sc.Router = []string{"curly", "jsr311"}[tp.G(2)]
	switch tp.G(3) {
	case 0: // computed
	case 1:
		sc.Methods = []string{"GET", "POST"}
	case 2:
		sc.Methods = []string{"DELETE", "PUT", "GET"}
	}
	sc.Headers = [][]string{{"X-Custom", "Accept"}, nil, {"*"}, {"content-type"}}[tp.G(4)]
	sc.Domains = [][]string{{"http://good.example"}, nil, {"http://other.example", "http://good.example"}}[tp.G(3)]
	sc.Cookies = tp.Bool()
	sc.MaxAge = []int{0, 60}[tp.G(2)]
	if tp.Bool() {
		sc.Expose = []string{"X-Exposed"}
	}
	sc.Trace = tp.Chance(300)
	sc.UseDefault = tp.Chance(300)
	sc.Preempt = []int{300, 100, 500}[tp.G(3)]
	sc.AddRoute = tp.Chance(250)
	sc.Verbs = tp.Chance(300)
	sc.DelRoute = sc.AddRoute && tp.Bool()
	if sc.AddRoute && tp.Chance(80) {
		sc.Noise = []int{12, 60, 140, 300, 600}[tp.G(5)]
		if tp.Chance(600) {
			sc.Methods = nil // computed per request
		}
	}
	maxReq := 4
	if x.Thorough() {
		maxReq = 8
	}
	id := 0
	tp.Repeat(1, 4, 600, func(int) {
		var rs []*c09Req
		tp.Repeat(1, maxReq, 600, func(int) {
			id++
			r := &c09Req{ID: id, Path: c09URLs[tp.G(len(c09URLs))]}
			if sc.Verbs && tp.Bool() {
				r.Path = c09VerbURLs[tp.G(len(c09VerbURLs))]
			}
			focus := sc.AddRoute && tp.Chance(600) // the URL whose routable methods the admin task changes
			if focus {
				r.Path = []string{"/a/x", "/a/x", "/a/x/"}[tp.G(3)]
			}
			// the last one: the server's own host name under the other scheme - a different origin all the same
			r.Origin = []string{"http://good.example", "http://good.example", "HTTP://Good.Example", "http://evil.example", "", "https://sim"}[tp.G(6)]
			switch tp.G(4) {
			case 0, 1: // preflight
				r.Method = "OPTIONS"
				r.ACRM = []string{"GET", "POST", "PUT", "DELETE", "PATCH", "get"}[tp.G(6)]
				r.ACRH = []string{"", "X-Custom", "x-custom", "X-Custom, Accept", " accept ,X-CUSTOM", "X-Other", "X-Custom,X-Other", "Content-Type", "X-Custom,,X-Other", ",X-Other", "X-Custom, , Accept",
					"X-Custom, Accept, x-custom, ACCEPT, accept", "content-type, Content-Type, CONTENT-TYPE", "Accept, Accept, Accept, X-Custom, X-Other",
					// names that merely contain an allowed name
					"Accept-Version", "X-Custom-Extra, Accept", "Proxy-X-Custom", "xaccept", "X-Content-Type-Options",
					// a name browsers may put on the list although it is a request header of the preflight itself
					"Origin", "X-Custom, origin"}[tp.G(21)]
				if focus && tp.Chance(700) {
					r.ACRM = []string{"PUT", "POST"}[tp.G(2)]
					r.ACRH = ""
				} else if tp.Chance(80) {
					r.ACRH2 = []string{"X-Other", "Accept", "Authorization", "x-custom"}[tp.G(4)]
				}
			case 2: // OPTIONS without a requested method: an actual request
				r.Method = "OPTIONS"
			case 3:
				r.Method = []string{"GET", "POST", "DELETE", "PUT"}[tp.G(4)]
			}
			rs = append(rs, r)
		})
		sc.Clients = append(sc.Clients, rs)
	})
	if sc.Noise > 0 {
		// the last client waits for the admin task to finish, then asks about the URL that was changed
		last := len(sc.Clients) - 1
		for _, m := range []string{"PUT", "POST"} {
			id++
			sc.Clients[last] = append(sc.Clients[last], &c09Req{ID: id, Method: "OPTIONS", Path: "/a/x", Origin: "http://good.example", ACRM: m})
		}
	}
	return sc
}

type c09World struct {
	c   *restful.Container
	wsA *restful.WebService
}

func c09Build(sc *c09Scen, byID map[int]*c09Req, extraRoute bool) *c09World {
	return c09BuildOpt(sc, byID, extraRoute, true)
}

// c09Routable asks the routers themselves (no CORS filter involved) which methods a URL accepts:
// a method is routable iff a plain request with it is answered neither 404 nor 405.
func c09Routable(sc *c09Scen, byID map[int]*c09Req, extraRoute bool, path string) map[string]bool {
	w := c09BuildOpt(sc, byID, extraRoute, false)
	out := map[string]bool{}
	for _, m := range []string{"GET", "POST", "PUT", "DELETE", "PATCH", "get", "OPTIONS", "HEAD"} {
		sw := sim.NewSimWriter(nil)
		Serve(w.c, EntryDispatch, sw, NewReq(m, path, nil, nil, 0, 0))
		if st := sw.Status(); st != 404 && st != 405 {
			out[m] = true
		}
	}
	return out
}

func c09BuildOpt(sc *c09Scen, byID map[int]*c09Req, extraRoute bool, withCORS bool) *c09World {
	c := restful.NewContainer()
	if sc.Router == "jsr311" {
		c.Router(restful.RouterJSR311{})
	}
	cors := restful.CrossOriginResourceSharing{AllowedMethods: append([]string{}, sc.Methods...), AllowedHeaders: sc.Headers, AllowedDomains: sc.Domains,
		CookiesAllowed: sc.Cookies, MaxAge: sc.MaxAge, ExposeHeaders: sc.Expose, Container: c}
	if len(sc.Methods) == 0 {
		cors.AllowedMethods = nil
	}
	if sc.UseDefault {
		// documented: without a Container the filter computes methods from the default container
		cors.Container = nil
		restful.DefaultContainer = c
	} else {
		// a decoy as default container: asking it instead of the configured one would show
		decoy := restful.NewContainer()
		dws := new(restful.WebService).Path("/a")
		dws.Route(dws.PATCH("/x").To(func(*restful.Request, *restful.Response) {}))
		dws.Route(dws.PATCH("/y").To(func(*restful.Request, *restful.Response) {}))
		decoy.Add(dws)
		restful.DefaultContainer = decoy
	}
	if withCORS {
		c.Filter(cors.Filter) // by value, as documented
	}
	ev := func(s string) {
		if r := byID[curReqID()]; r != nil && curVariant() == 0 {
			r.events = append(r.events, s)
		}
	}
	c.Filter(func(req *restful.Request, resp *restful.Response, chain *restful.FilterChain) {
		y(sim.SiteFilterPre)
		ev("after-filter")
		chain.ProcessFilter(req, resp)
	})
	h := func(name string) restful.RouteFunction {
		return func(req *restful.Request, resp *restful.Response) {
			y(sim.SiteHandler)
			ev("route:" + name)
			resp.Write([]byte(name))
		}
	}
	wsA := new(restful.WebService).Path("/a")
	wsA.SetDynamicRoutes(true)
	wsA.Filter(func(req *restful.Request, resp *restful.Response, chain *restful.FilterChain) {
		ev("service-filter")
		chain.ProcessFilter(req, resp)
	})
	wsA.Route(wsA.GET("/x").To(h("GET /a/x")))
	if !(extraRoute && sc.DelRoute) {
		wsA.Route(wsA.POST("/x").To(h("POST /a/x")))
	}
	wsA.Route(wsA.GET("/y").To(h("GET /a/y")))
	wsA.Route(wsA.DELETE("/y/{id}").To(h("DELETE /a/y/{id}")))
	// literal segments with regular-expression meta characters
	wsA.Route(wsA.GET("/v1.0/items").To(h("GET /a/v1.0/items")))
	wsA.Route(wsA.PUT("/v1.0/items").To(h("PUT /a/v1.0/items")))
	if sc.Verbs {
		wsA.Route(wsA.POST("/y/{id}:cancel").To(h("POST /a/y/{id}:cancel")))
		wsA.Route(wsA.DELETE("/x:purge").To(h("DELETE /a/x:purge")))
	}
	if extraRoute && !sc.DelRoute {
		wsA.Route(wsA.PUT("/x").To(h("PUT /a/x")))
	}
	wsB := new(restful.WebService).Path("/b")
	wsB.Route(wsB.PUT("/z").To(h("PUT /b/z")))
	wsB.Route(wsB.GET("/z").To(h("GET /b/z")))
	wsB.Route(wsB.POST("/z+z").To(h("POST /b/z+z")))
	c.Add(wsA)
	c.Add(wsB)
	return &c09World{c: c, wsA: wsA}
}

func (r *c09Req) serve(c *restful.Container, t *sim.Task) (*sim.SimWriter, string) {
	hdr := map[string]string{}
	if r.Origin != "" {
		hdr["Origin"] = r.Origin
	}
	if r.ACRM != "" {
		hdr["Access-Control-Request-Method"] = r.ACRM
	}
	if r.ACRH != "" {
		hdr["Access-Control-Request-Headers"] = r.ACRH
	}
	w := sim.NewSimWriter(t)
	hr := NewReq(r.Method, r.Path, hdr, nil, 0, r.ID)
	if r.ACRH2 != "" {
		hr.Header.Add("Access-Control-Request-Headers", r.ACRH2)
	}
	esc := Serve(c, EntryServeHTTP, w, hr)
	return w, c19Response(w, esc)
}

// requested: every header name the preflight asks for, over all header lines.
func (r *c09Req) requested() string {
	if r.ACRH2 == "" {
		return r.ACRH
	}
	if r.ACRH == "" {
		return r.ACRH2
	}
	return r.ACRH + "," + r.ACRH2
}

func originAllowed(sc *c09Scen, origin string) bool {
	if origin == "" {
		return false
	}
	if len(sc.Domains) == 0 {
		return true
	}
	for _, d := range sc.Domains {
		if strings.EqualFold(d, origin) {
			return true
		}
	}
	return false
}

func acHeaders(w *sim.SimWriter) []string {
	var out []string
	for k, vs := range w.H {
		if strings.HasPrefix(k, "Access-Control-") {
			out = append(out, k+"="+strings.Join(vs, "|"))
		}
	}
	sort.Strings(out)
	return out
}

func runC09(x *Ctx) {
	sc := genC09(x)
	x.Res.Scenario = sc
	x.Res.ScenHash = sim.HashString(jsonStr(sc))
	s := x.Sim
	s.Preempt = sc.Preempt
	byID := map[int]*c09Req{}
	var all []*c09Req
	for _, cl := range sc.Clients {
		for _, r := range cl {
			byID[r.ID] = r
			all = append(all, r)
		}
	}
	restful.EnableTracing(sc.Trace)
	w := c09Build(sc, byID, false)
	s.MaxSteps += 14 * sc.Noise
	var adminDone sim.Flags
	for ci, cl := range sc.Clients {
		cl := cl
		ci := ci
		s.Go(fmt.Sprintf("client%d", ci), func(t *sim.Task) {
			if sc.Noise > 0 && ci == len(sc.Clients)-1 {
				t.WaitUntil(sim.SiteRendezvous, func() bool { return adminDone.Get(1) })
			}
			for _, r := range cl {
				t.Req = r.ID
				t.Y(sim.SiteStart)
				r.call = t.Stamp()
				r.w, r.resp = r.serve(w.c, t)
				r.ret = t.Stamp()
			}
		})
	}
	var adminCall, adminRet int64
	if sc.AddRoute {
		s.Go("admin", func(t *sim.Task) {
			t.Y(sim.SiteAdminPre)
			noise := func(k int, path string) {
				nr := &c09Req{ID: 40000 + k, Method: "OPTIONS", Path: path, Origin: "http://good.example", ACRM: []string{"GET", "POST", "PUT", "DELETE"}[k%4]}
				t.Req = nr.ID
				nw := sim.NewSimWriter(t)
				nw.Quiet = true
				Serve(w.c, EntryServeHTTP, nw, NewReq(nr.Method, nr.Path, map[string]string{"Origin": nr.Origin, "Access-Control-Request-Method": nr.ACRM}, nil, 0, nr.ID))
			}
			if sc.Noise > 0 {
				for k, u := range append(append([]string{}, c09URLs...), c09VerbURLs...) {
					noise(k, u)
				}
				for k := 0; k < sc.Noise; k++ {
					noise(100+k, []string{"/a/y/n%d", "/b/n%d", "/a/n%d", "/a/y/n%d/"}[k%4][:0]+fmt.Sprintf([]string{"/a/y/n%d", "/b/n%d", "/a/n%d", "/a/y/n%d/"}[k%4], k))
				}
				t.Count("reach:aged-container")
			}
			adminCall = t.Stamp()
			if sc.DelRoute {
				w.wsA.RemoveRoute("/a/x", "POST")
			} else {
				w.wsA.Route(w.wsA.PUT("/x").To(func(req *restful.Request, resp *restful.Response) { resp.Write([]byte("PUT /a/x")) }))
			}
			adminRet = t.Stamp()
			if sc.Noise > 0 {
				noise(99, "/a/y/after")
			}
			adminDone.Set(1)
			t.Y(sim.SiteAdminPost)
		})
	}
	ok := s.Run()
	restful.EnableTracing(false)
	if !ok {
		return
	}
	s.MergeCounts()
	checkNoEscapes(x, s)
	preflights, grants, refusals := 0, 0, 0
	seqVariant = 1
	defer func() { seqVariant = 0; seqReq = 0 }()
	for _, r := range all {
		what := fmt.Sprintf("request %d (%s %s Origin=%q ACRM=%q ACRH=%q; allowed methods %v headers %v domains %v)", r.ID, r.Method, r.Path, r.Origin, r.ACRM, r.ACRH+map[bool]string{true: " + second line " + r.ACRH2, false: ""}[r.ACRH2 != ""], sc.Methods, sc.Headers, sc.Domains)
		allowed := originAllowed(sc, r.Origin)
		isPreflight := allowed && r.Method == "OPTIONS" && r.ACRM != ""
		ac := acHeaders(r.w)
		if !isPreflight {
			if allowed {
				// (d) an actual request proceeds down the chain with each actual-request header once
				if len(r.events) == 0 || r.events[0] != "after-filter" {
					x.Violate("actual-request-stopped", "%s: the chain did not continue after the CORS filter: events %v", what, r.events)
				}
				want := []string{"Access-Control-Allow-Origin=" + r.Origin}
				if sc.Cookies {
					want = append(want, "Access-Control-Allow-Credentials=true")
				}
				if len(sc.Expose) > 0 {
					want = append(want, "Access-Control-Expose-Headers="+strings.Join(sc.Expose, ","))
				}
				if sc.MaxAge > 0 {
					want = append(want, fmt.Sprintf("Access-Control-Max-Age=%d", sc.MaxAge))
				}
				sort.Strings(want)
				if fmt.Sprint(ac) != fmt.Sprint(want) {
					x.Violate("actual-request-headers", "%s: CORS headers %v, want each of %v exactly once", what, ac, want)
				}
			}
			continue
		}
		preflights++
		// registration states that existed at some moment during this request: the one before the admin's
		// change unless the request began after the change was complete, the one after it unless the
		// request was over before the change began
		oldOK, newOK := true, false
		if sc.AddRoute {
			newOK = r.ret > adminCall
			oldOK = r.call < adminRet
			if newOK && !oldOK {
				x.Count("reach:preflight-after-route-change")
			}
		}
		// (a) the filter answers alone
		if len(r.events) > 0 {
			x.Violate("preflight-reached-chain", "%s: later filters or the route function ran: %v", what, r.events)
		}
		if len(sc.Methods) > 0 {
			// (b) configured methods: the reference decision is three set memberships
			grant := false
			for _, m := range sc.Methods {
				if m == r.ACRM {
					grant = true
				}
			}
			if grant && r.requested() != "" {
				for _, h := range strings.Split(r.requested(), ",") {
					h = strings.Trim(h, " ")
					ok := false
					for _, a := range sc.Headers {
						if a == "*" || strings.EqualFold(a, h) {
							ok = true
						}
					}
					if !ok {
						grant = false
					}
				}
			}
			has := func(k string) bool { return len(r.w.H[k]) > 0 }
			if grant {
				grants++
				if !has("Access-Control-Allow-Methods") || !has("Access-Control-Allow-Origin") || r.w.H.Get("Access-Control-Allow-Methods") != strings.Join(sc.Methods, ",") || r.w.H.Get("Access-Control-Allow-Origin") != r.Origin || (r.ACRH2 == "" && r.w.H.Get("Access-Control-Allow-Headers") != r.ACRH) {
					x.Violate("preflight-not-granted", "%s: method and headers are allowed but the response carries %v", what, ac)
				}
			} else {
				refusals++
				if len(ac) > 0 {
					x.Violate("preflight-wrongly-granted", "%s: the method or a requested header is not allowed but the response carries %v", what, ac)
				}
			}
		}
		if len(sc.Methods) == 0 {
			// (b') computed methods: "the methods routable at that URL in the container", asked from the
			// routers directly; with an admin adding a route meanwhile either registration state counts
			headersOK := true
			if r.requested() != "" {
				for _, h := range strings.Split(r.requested(), ",") {
					h = strings.Trim(h, " ")
					ok := false
					for _, a := range sc.Headers {
						if a == "*" || strings.EqualFold(a, h) {
							ok = true
						}
					}
					if !ok {
						headersOK = false
					}
				}
			}
			granted := len(r.w.H["Access-Control-Allow-Methods"]) > 0
			want := c09Routable(sc, byID, false, r.Path)[r.ACRM] && headersOK
			want2 := want
			if sc.AddRoute {
				want2 = c09Routable(sc, byID, true, r.Path)[r.ACRM] && headersOK
			}
			if !((oldOK && granted == want) || (newOK && granted == want2)) {
				x.Violate("computed-grant-differs-from-routable", "%s: granted=%v, but %s is routable at this URL: %v before / %v after the admin's route change (request ran before it: %v, after it: %v; headers allowed: %v)", what, granted, r.ACRM, want, want2, oldOK && !newOK, newOK && !oldOK, headersOK)
			}
			if granted {
				grants++
			} else {
				refusals++
				if len(ac) > 0 {
					x.Violate("preflight-wrongly-granted", "%s: refused (no Allow-Methods) but the response carries %v", what, ac)
				}
			}
		}
		// (c) the same preflight as the first request ever on a fresh filter and container; with an admin
		// adding a route meanwhile, either registration state is acceptable
		seqReq = r.ID
		_, fresh := r.serve(c09Build(sc, byID, false).c, nil)
		okc := oldOK && fresh == r.resp
		if !okc && newOK {
			_, fresh2 := r.serve(c09Build(sc, byID, true).c, nil)
			okc = fresh2 == r.resp
		}
		if !okc {
			x.Violate("preflight-depends-on-history", "%s: answered\n  %s\na fresh filter on a fresh container answers this single preflight\n  %s", what, r.resp, fresh)
		}
	}
	x.CountN("preflights", preflights)
	x.CountN("preflight-grants", grants)
	x.CountN("preflight-refusals", refusals)
	if preflights >= 2 {
		x.Count("reach:several-preflights-on-one-filter")
	}
	x.Res.Nontrivial = preflights >= 1 && len(all) >= 2
}
