package props

import (
	"fmt"
	"strings"

	"restsim/sim"
)

func init() {
	register(&PropInfo{ID: "C06", Run: runC06, UseRace: true, Level: "exploration"})
}

type chainScen struct {
	Cfg     *ChainCfg     `json:"config"`
	Clients [][]*ChainReq `json:"clients"`
	// Aging: the long-lived server. Before the clients start, the container serves the requests of
	// AgeCycle one after the other, AgeRounds times over (tens to thousands of requests of an ordinary
	// kind); every one of them is judged like a client's request. Counters, caches that fill, pools that
	// cycle, "every Nth" logic and capacities that sufficed for the first few uses are reached this way.
	AgeCycle  []*ChainReq `json:"aging_cycle,omitempty"`
	AgeRounds int         `json:"aging_rounds,omitempty"`
	aged      []*ChainReq
}

// all: the aging requests (in serving order) followed by the clients' requests.
func (sc *chainScen) all() []*ChainReq {
	out := append([]*ChainReq{}, sc.agedReqs()...)
	return append(out, sc.live()...)
}

// live: the requests of the simulated clients.
func (sc *chainScen) live() []*ChainReq {
	var out []*ChainReq
	for _, cl := range sc.Clients {
		out = append(out, cl...)
	}
	return out
}

func (sc *chainScen) agedReqs() []*ChainReq {
	if sc.aged == nil && sc.AgeRounds > 0 {
		add := func(r ChainReq) {
			r.ID = 20000 + len(sc.aged)
			r.payload = sim.PayloadBytes(fmt.Sprintf("h%d", r.ID), r.N)
			r.res = [2]*ChainRes{}
			sc.aged = append(sc.aged, &r)
		}
		fill := func(i int) {
			add(ChainReq{Target: fmt.Sprintf("fill:%d", i), N: 10, Chunks: []int{10}, AE: sc.AgeCycle[0].AE})
		}
		// every filler route once, in order
		for i := 0; i < sc.Cfg.Fill; i++ {
			fill(i)
		}
		for i := 0; i < sc.AgeRounds*len(sc.AgeCycle); i++ {
			r := *sc.AgeCycle[i%len(sc.AgeCycle)]
			if round := i / len(sc.AgeCycle); round%2 == 1 && r.AE != "" {
				// every other round: a spelling of Accept-Encoding never seen before that means the same (an
				// unknown coding is added); the original spelling comes back in the next round
				if round%4 == 1 {
					r.AE = fmt.Sprintf("%s, x-n%d", r.AE, i)
				} else {
					r.AE = fmt.Sprintf("x-n%d, %s", i, r.AE)
				}
			}
			add(r)
		}
		// and the first filler routes again, after everything else went through
		for i := 0; i < sc.Cfg.Fill && i < 12; i++ {
			fill(i)
		}
	}
	return sc.aged
}

func genChainScen(x *Ctx, k chainKnobs, minClients, maxClients, maxReqs int) *chainScen {
	tp := x.Tape
	sc := &chainScen{Cfg: genChainCfg(tp, k)}
	id := 0
	tp.Repeat(minClients, maxClients, 600, func(int) {
		var reqs []*ChainReq
		tp.Repeat(1, maxReqs, 550, func(int) {
			id++
			reqs = append(reqs, genChainReq(tp, sc.Cfg, k, id))
		})
		sc.Clients = append(sc.Clients, reqs)
	})
	if tp.Chance(12) {
		ka := k
		if ka.maxPayload > 120 {
			ka.maxPayload = 120
		}
		tp.Repeat(1, 4, 600, func(i int) {
			r := genChainReq(tp, sc.Cfg, ka, 500+i)
			if r.N > 120 {
				r.N, r.Chunks = 120, []int{50}
			}
			r.AddSvc = false
			sc.AgeCycle = append(sc.AgeCycle, r)
		})
		rounds := []int{8, 33, 130, 520}
		if x.Thorough() {
			rounds = append(rounds, 1100, 2100)
		}
		sc.AgeRounds = rounds[tp.G(len(rounds))]
		sc.Cfg.Fill = []int{0, 0, 24, 70, 300}[tp.G(5)]
	}
	return sc
}

// runClients registers one task per client; each serves its requests in order.
func runClients(s *sim.Sim, cr *chainRun, sc *chainScen, after func(t *sim.Task, r *ChainReq)) {
	for ci, cl := range sc.Clients {
		cl := cl
		s.Go(fmt.Sprintf("client%d", ci), func(t *sim.Task) {
			var prev *ChainReq
			for _, r := range cl {
				t.Req = r.ID
				t.Y(sim.SiteStart)
				cr.serve(t, r, 0)
				t.Yield(sim.SiteCheckpoint, sim.KCheckpoint, 0, 0)
				if after != nil {
					after(t, r)
				}
				if prev != nil {
					cr.resume(t, prev) // the chain the previous request left behind goes on now
				}
				prev = r
			}
			if prev != nil {
				cr.resume(t, prev)
			}
		})
	}
}

// expectations about what the handler sees, derived from the filter list alone
func (cfg *ChainCfg) handlerSees(r *ChainReq) (attrs, ctx, gen, params, sel string, reaches bool) {
	fs := cfg.effectiveFilters(r.Target)
	var as []string
	params = fmt.Sprintf("id=tok%d%s", r.ID, r.pad())
	sel = "/svc/data/{id}"
	if r.Target == "post" {
		params, sel = "", "/svc/post"
	}
	if r.Target == "route2" {
		sel = "/svc2/data/{id}"
	}
	if i, ok := fillIndex(r.Target); ok {
		sel = fmt.Sprintf("/fill/r%d/{id}", i)
	}
	for _, f := range fs {
		switch f.Kind {
		case "short", "mw-short":
			return "", "", "", "", "", false
		case "attr":
			as = append(as, fmt.Sprintf("%s-%d", f.tag, r.ID))
		case "newreq":
			as = nil
			ctx, gen, params, sel = f.tag, f.tag, "", ""
		case "mw-wrap":
			ctx = f.tag
		}
	}
	return strings.Join(as, ","), ctx, gen, params, sel, true
}

func runC06(x *Ctx) {
	k := chainKnobs{later: true, swapbuf: true, cancels: 80, maxFilters: 3, maxCF: 7, twoServices: true, warm: true, richFilters: true, encoding: false, panics: 120, wfaults: 60, errors: true, plain: true, nested: false, maxPayload: 300, filterWrites: true}
	maxClients, maxReqs := 4, 3
	if x.Thorough() {
		maxClients, maxReqs = 5, 6
	}
	sc := genChainScen(x, k, 1, maxClients, maxReqs)
	x.Res.Scenario = sc
	x.Res.ScenHash = sim.HashString(jsonStr(sc))
	s := x.Sim
	s.Preempt = sc.Cfg.Preempt
	reqs := sc.all()
	cr := newChainRun(s, sc.Cfg, reqs)
	cr.age(s, sc)
	runClients(s, cr, sc, nil)
	if !s.Run() {
		return
	}
	s.MergeCounts()
	checkNoEscapes(x, s)
	interleaved := chainInterleaved(s)
	if interleaved {
		x.Count("reach:requests-interleaved-mid-chain")
	}
	x.Res.Nontrivial = interleaved || len(reqs) >= 2
	checkChainOrder(x, sc, reqs)
}

func checkNoEscapes(x *Ctx, s *sim.Sim) {
	for _, t := range s.Tasks {
		if t.Escaped != nil {
			x.Violate("harness-task-panic", "task %s panicked outside a request: %v (%s)", t.Name, t.Escaped, trimStack(t.EscStack))
		}
	}
}

// chainInterleaved reports whether chain events of two requests alternate in the global order.
func chainInterleaved(s *sim.Sim) bool {
	last := -1
	open := map[int]bool{}
	switches := 0
	for _, e := range s.Events() {
		if e.Kind != "chain" {
			continue
		}
		if last != -1 && e.Req != last && open[e.Req] {
			switches++
		}
		open[e.Req] = true
		last = e.Req
	}
	return switches > 0
}

// checkChainOrder is C06's oracle: per request, the private event sequence equals the filter-order
// model; downstream actors saw exactly what was passed on; nothing foreign showed up.
func checkChainOrder(x *Ctx, sc *chainScen, reqs []*ChainReq) {
	cfg := sc.Cfg
	for _, r := range reqs {
		res := r.res[0]
		want, _ := cfg.model(r)
		if !eventsEqual(res.Events, want) {
			x.Violate("filter-order", "request %d (%s via %s): events %v, the filter-order model (container, service, route filters in registration order, each once, target last) gives %v", r.ID, r.Target, cfg.Entry, res.Events, want)
			continue
		}
		if res.Foreign > 0 {
			x.Violate("foreign-request", "request %d: %d callbacks received another request's http.Request", r.ID, res.Foreign)
		}
		if r.PanicAt != "" {
			continue
		}
		if isRouted(r.Target) {
			attrs, ctx, gen, params, sel, reaches := cfg.handlerSees(r)
			if reaches {
				got := fmt.Sprintf("attrs=%s ctx=%s gen=%s params=%s sel=%s", res.SawAttrs, res.SawCtx, res.SawGen, res.SawParams, res.SawSel)
				exp := fmt.Sprintf("attrs=%s ctx=%s gen=%s params=%s sel=%s", attrs, ctx, gen, params, sel)
				if got != exp {
					x.Violate("passed-on-pair", "request %d: the handler saw {%s}, the filters passed on {%s}", r.ID, got, exp)
				}
			}
		}
		for _, f := range cfg.effectiveFilters(r.Target) {
			if cfg.Later && (r.Target == "route" || r.Target == "post") {
				break // the continuation writes after the wrapping filters have returned: not attributable
			}
			in, wantN := res.WrapIn[f.tag], res.WrapWant[f.tag]
			libWrites := targetEvent(cfg, r.Target) == "" // the library's own error writer adds bytes the harness did not count
			if f.Kind == "newresp" && in != wantN && !libWrites || in < wantN {
				x.Violate("passed-on-pair", "request %d: %d bytes were written downstream of filter %s (%s), %d went through the ResponseWriter it passed on", r.ID, wantN, f.tag, f.Kind, in)
			}
		}
	}
}
