// Package props holds one simulated scenario generator plus oracles per property.
package props

import (
	"bytes"
	"compress/gzip"
	"compress/zlib"
	"context"
	"encoding/json"
	"fmt"
	"io"
	"net/http"
	"net/url"
	"sort"
	"strings"

	restful "github.com/emicklei/go-restful/v3"

	"restsim/sim"
)

// Result is what one simulated run reports.
type Result struct {
	Prop       string          `json:"prop"`
	Index      uint64          `json:"index"`
	Seed       uint64          `json:"seed"`
	OK         bool            `json:"ok"`
	Class      string          `json:"class,omitempty"`  // first violation class
	Detail     string          `json:"detail,omitempty"` // first violation detail
	Violations []sim.Violation `json:"violations,omitempty"`
	Abnormal   string          `json:"abnormal,omitempty"`
	ScenHash   uint64          `json:"scen_hash"`
	TraceHash  uint64          `json:"trace_hash"`
	Steps      uint64          `json:"steps"`
	Nontrivial bool            `json:"nontrivial"`
	Counts     map[string]int  `json:"counts,omitempty"`
	Scenario   interface{}     `json:"scenario,omitempty"`
	Gen        []uint32        `json:"gen,omitempty"`
	Sched      []uint32        `json:"sched,omitempty"`
	Blocks     [][2]int        `json:"blocks,omitempty"`
	Race       string          `json:"race,omitempty"`
	Flavour    string          `json:"flavour,omitempty"`
	LogHash    uint64          `json:"log_hash"`
}

// Ctx is handed to a property's Run function.
type Ctx struct {
	Prop  string
	Tier  string // quick | thorough
	Tape  *sim.Tape
	Sim   *sim.Sim
	Res   *Result
	Race  bool // running in the race-detector flavour
	Descr map[string]interface{}
	Fixed map[string]int // enumerated (non-drawn) leading choices, e.g. crash point index
}

func (x *Ctx) Violate(class, format string, a ...interface{}) { x.Sim.Violate(class, format, a...) }
func (x *Ctx) Count(k string)                                 { x.Sim.Counts[k]++ }
func (x *Ctx) CountN(k string, n int)                         { x.Sim.Counts[k] += n }
func (x *Ctx) Thorough() bool                                 { return x.Tier == "thorough" }

// RunFunc is a property's simulated scenario: generate from the tape, run, judge.
type RunFunc func(x *Ctx)

type PropInfo struct {
	ID      string
	Run     RunFunc
	UseRace bool   // the race detector is one of this property's oracles
	Level   string // exploration | fault_enumeration
	Rule    string
	Enum    func(tier string) int // number of leading run indices that enumerate a finite family
	Assume  []string
}

var Registry = map[string]*PropInfo{}

func register(p *PropInfo) { Registry[p.ID] = p }

// ---- library globals -----------------------------------------------------------------------

type nullLogger struct{}

func (nullLogger) Print(v ...interface{})                 {}
func (nullLogger) Printf(format string, v ...interface{}) {}

// yieldLogger is the trace logger: every trace branch in the routers becomes a schedule point
// inside the read-locked region.
type yieldLogger struct{}

func (yieldLogger) Print(v ...interface{}) {
	if t := sim.Cur(); t != nil {
		t.Count("trace-lines")
		t.Y(sim.SiteTrace)
	}
}
func (yieldLogger) Printf(format string, v ...interface{}) {
	if t := sim.Cur(); t != nil {
		t.Count("trace-lines")
		t.Y(sim.SiteTrace)
	}
}

// ResetGlobals puts every package-level setting of the library back to its default. Called by
// the scheduler goroutine between runs only.
func ResetGlobals() {
	restful.SetLogger(nullLogger{})
	restful.TraceLogger(yieldLogger{})
	restful.EnableTracing(false)
	restful.PrettyPrintResponses = true
	restful.DefaultResponseMimeType = ""
	restful.DefaultRequestContentType("")
	restful.TrimRightSlashEnabled = true
	restful.SetCompressorProvider(restful.NewSyncPoolCompessors())
	restful.DefaultContainer = restful.NewContainer()
}

// ---- requests and responses -------------------------------------------------------------------

const hdrReq = "X-Sim-Req"

// NewReq builds an http.Request without net/http's body sniffing, so a SimBody can be attached.
func NewReq(method, target string, hdr map[string]string, body io.ReadCloser, contentLength int64, id int) *http.Request {
	u, err := url.ParseRequestURI(target)
	if err != nil {
		panic(fmt.Sprintf("harness: bad target %q: %v", target, err))
	}
	r := &http.Request{Method: method, URL: u, Proto: "HTTP/1.1", ProtoMajor: 1, ProtoMinor: 1, Header: http.Header{}, Host: "sim", RequestURI: target}
	for k, v := range hdr {
		r.Header.Set(k, v)
	}
	r.Header.Set(hdrReq, fmt.Sprint(id))
	if body != nil {
		r.Body = body
		r.ContentLength = contentLength
		r.Header.Set("Content-Length", fmt.Sprint(contentLength))
	} else {
		r.Body = http.NoBody
	}
	return r
}

func ReqID(r *http.Request) int {
	var id int
	fmt.Sscanf(r.Header.Get(hdrReq), "%d", &id)
	return id
}

// Entry points.
const (
	EntryServeHTTP = 0
	EntryDispatch  = 1
)

func entryName(e int) string {
	if e == EntryDispatch {
		return "Dispatch"
	}
	return "ServeHTTP"
}

// Serve calls the container through the chosen entry point and returns the panic value that
// escaped, if any.
func Serve(c *restful.Container, entry int, w http.ResponseWriter, r *http.Request) (escaped interface{}) {
	// as with net/http's server, the request's context can be cancelled and is cancelled when the
	// exchange is over
	ctx, cancel := context.WithCancel(r.Context())
	r = r.WithContext(ctx)
	defer cancel()
	defer func() {
		if p := recover(); p != nil {
			escaped = p
		}
	}()
	if entry == EntryDispatch {
		c.Dispatch(w, r)
	} else {
		c.ServeHTTP(w, r)
	}
	return nil
}

// Decode returns the body as a client would see it after undoing the declared content coding.
// The whole stream is read to EOF so trailers/checksums are verified, and nothing may follow it.
func Decode(enc string, body []byte) ([]byte, error) {
	switch enc {
	case "":
		return body, nil
	case "gzip":
		br := bytes.NewReader(body)
		zr, err := gzip.NewReader(br)
		if err != nil {
			return nil, fmt.Errorf("gzip header: %v", err)
		}
		zr.Multistream(false)
		out, err := io.ReadAll(zr)
		if err != nil {
			return out, fmt.Errorf("gzip stream: %v", err)
		}
		if br.Len() != 0 {
			return out, fmt.Errorf("gzip stream followed by %d extra bytes", br.Len())
		}
		return out, nil
	case "deflate":
		br := bytes.NewReader(body)
		zr, err := zlib.NewReader(br)
		if err != nil {
			return nil, fmt.Errorf("zlib header: %v", err)
		}
		out, err := io.ReadAll(zr)
		if err != nil {
			return out, fmt.Errorf("zlib stream: %v", err)
		}
		if br.Len() != 0 {
			return out, fmt.Errorf("zlib stream followed by %d extra bytes", br.Len())
		}
		return out, nil
	}
	return nil, fmt.Errorf("unknown Content-Encoding %q", enc)
}

func Gzip(p []byte) []byte {
	var b bytes.Buffer
	zw := gzip.NewWriter(&b)
	zw.Write(p)
	zw.Close()
	return b.Bytes()
}

func Zlib(p []byte) []byte {
	var b bytes.Buffer
	zw := zlib.NewWriter(&b)
	zw.Write(p)
	zw.Close()
	return b.Bytes()
}

// ---- misc -----------------------------------------------------------------------------------

func sortedKeys(m map[string]string) []string {
	ks := make([]string, 0, len(m))
	for k := range m {
		ks = append(ks, k)
	}
	sort.Strings(ks)
	return ks
}

func kv(m map[string]string) string {
	var sb strings.Builder
	for i, k := range sortedKeys(m) {
		if i > 0 {
			sb.WriteByte(',')
		}
		sb.WriteString(k + "=" + m[k])
	}
	return sb.String()
}

func jsonStr(v interface{}) string {
	b, _ := json.Marshal(v)
	return string(b)
}

func clip(s string, n int) string {
	if len(s) <= n {
		return s
	}
	return s[:n] + fmt.Sprintf("…(%d bytes)", len(s))
}

// chunkPlan draws n chunk sizes in [1,max]; an all-zero tape gives max (one big write).
func chunkPlan(tp *sim.Tape, n, max int) []int {
	out := make([]int, n)
	for i := range out {
		out[i] = max - tp.G(max)
		if out[i] < 1 {
			out[i] = 1
		}
	}
	return out
}

// scaleChunks multiplies a chunk plan so that reading total bytes takes at most about maxReads calls:
// every Read is a schedule point, and a run that exhausts the step budget decides nothing.
func scaleChunks(plan []int, total, maxReads int) []int {
	sum := 0
	for _, c := range plan {
		sum += c
	}
	if len(plan) == 0 || sum == 0 {
		return plan
	}
	reads := total * len(plan) / sum
	if reads <= maxReads {
		return plan
	}
	f := reads/maxReads + 1
	out := make([]int, len(plan))
	for i, c := range plan {
		out[i] = c * f
	}
	return out
}

func maxInt(a, b int) int {
	if a > b {
		return a
	}
	return b
}

func minInt(a, b int) int {
	if a < b {
		return a
	}
	return b
}
