package props

import (
	"bytes"
	"fmt"
	"strings"

	"restsim/sim"
)

func init() {
	register(&PropInfo{ID: "C07", Run: runC07, UseRace: false, Level: "exploration"})
}

// routeSetting is the route-level override in force for the request's route: 0 unset, 1 on, 2 off.
func routeSetting(cfg *ChainCfg, r *ChainReq) int {
	if r.Target == "post" && cfg.ReuseBuilder && cfg.RouteEncPost != 0 {
		return cfg.RouteEncPost
	}
	if (r.Target == "route" || r.Target == "twin") && cfg.RouteEncLate != 0 {
		return cfg.RouteEncLate
	}
	return cfg.RouteEnc
}

func encodingEnabledFor(cfg *ChainCfg, r *ChainReq) bool {
	if cfg.Entry == "Nested" || cfg.Entry == "NestedFilter" {
		return true // the outer container (encoding on) serves everything through a plain handler
	}
	if r.Target == "post" && cfg.ReuseBuilder && cfg.RouteEncPost != 0 {
		return cfg.RouteEncPost == 1
	}
	if isRouted(r.Target) {
		switch routeSetting(cfg, r) {
		case 1:
			return true
		case 2:
			return false
		}
	}
	return cfg.ContEnc
}

func runC07(x *Ctx) {
	k := chainKnobs{swapbuf: true, cancels: 40, maxFilters: 2, encoding: true, addCE: true, warm: true, panics: 200, errors: true, plain: true, nested: true, maxPayload: 4096, filterWrites: true, early: true, wfaults: 80}
	maxClients := 3
	if x.Thorough() {
		k.maxPayload = 200000
		maxClients = 4
	}
	sc := genChainScen(x, k, 1, maxClients, 3)
	x.Res.Scenario = sc
	x.Res.ScenHash = sim.HashString(jsonStr(sc))
	s := x.Sim
	s.Preempt = sc.Cfg.Preempt
	reqs := sc.all()
	cr := newChainRun(s, sc.Cfg, reqs)
	cr.age(s, sc)
	runClients(s, cr, sc, nil)
	if !s.Run() {
		return
	}
	s.MergeCounts()
	checkNoEscapes(x, s)
	cr.twin(reqs)
	checkEncoding(x, sc, reqs)
	for _, e := range s.Events() {
		if e.Kind == "use-after-release" {
			x.Violate("use-after-release", "request %d: a released %s was used", e.Req, e.S)
		}
	}
	x.Res.Nontrivial = s.Counts["encoded-responses"] > 0 && (s.Counts["preemptions"] > 0 || s.Counts["fault-panic"] > 0)
}

// checkEncoding is C07's oracle.
func checkEncoding(x *Ctx, sc *chainScen, reqs []*ChainReq) {
	cfg := sc.Cfg
	for _, r := range reqs {
		res, tw := r.res[0], r.res[1]
		if res.W.Fired > 0 {
			// the client went away: bytes were lost by the fault, nothing is promised about this body;
			// the ledger and every other response are still checked
			continue
		}
		want := tw.W.Body
		what := fmt.Sprintf("request %d (%s, entry=%s container=%s route=%s Accept-Encoding=%q panic=%q recover=%d)", r.ID, r.Target, cfg.Entry,
			map[bool]string{true: "on", false: "off"}[cfg.ContEnc], []string{"unset", "on", "off"}[routeSetting(cfg, r)], r.AE, r.PanicAt, cfg.Recover)
		if fmt.Sprint(res.Escaped) != fmt.Sprint(tw.Escaped) {
			x.Violate("escape-differs", "%s: escaped panic %v, without encoding %v", what, res.Escaped, tw.Escaped)
			continue
		}
		if res.W.Status() != tw.W.Status() {
			x.Violate("status-differs", "%s: status %d, without encoding %d", what, res.W.Status(), tw.W.Status())
		}
		if cl := res.W.H.Get("Content-Length"); cl != "" && cl != fmt.Sprint(len(res.W.Body)) {
			x.Violate("undecodable", "%s: the response declares Content-Length %s but %d body bytes were sent: the client does not get the complete body", what, cl, len(res.W.Body))
			continue
		}
		ce := res.W.H["Content-Encoding"]
		if r.AddCE {
			// the route function added its own value (a layered coding it applied itself): judged is what is left
			nbr := 0
			for _, v := range ce {
				if v == "br" {
					nbr++
				}
			}
			if r.PreCE == "br" {
				nbr-- // that one was there on arrival; the handler's value may also have come too late to be sent
			}
			for i := len(ce) - 1; i >= 0 && nbr > 0; i-- {
				if ce[i] == "br" {
					ce = append(append([]string{}, ce[:i]...), ce[i+1:]...)
					x.Count("reach:handler-added-its-own-content-encoding")
					break
				}
			}
		}
		if r.PreCE != "" {
			if len(ce) != 1 || ce[0] != r.PreCE {
				x.Violate("encoded-over-existing-coding", "%s: the writer arrived with Content-Encoding %q, now %v", what, r.PreCE, ce)
			} else if !bodyEqualModuloStack(res.W.Body, want) {
				x.Violate("encoded-over-existing-coding", "%s: the writer arrived with Content-Encoding %q but the body (%d bytes) is not the %d bytes written", what, r.PreCE, len(res.W.Body), len(want))
			}
			x.Count("reach:writer-arrived-with-content-encoding")
			continue
		}
		if len(ce) == 0 {
			if !bodyEqualModuloStack(res.W.Body, want) {
				x.Violate("plain-body-differs", "%s: no Content-Encoding, but the body (%d bytes, %q) is not the %d bytes written (%q)", what, len(res.W.Body), clip(string(res.W.Body), 60), len(want), clip(string(want), 60))
			}
			continue
		}
		if len(ce) != 1 || (ce[0] != "gzip" && ce[0] != "deflate") {
			x.Violate("bad-content-encoding", "%s: Content-Encoding header is %v", what, ce)
			continue
		}
		x.Count("encoded-responses")
		if res.Panicked {
			x.Count("reach:encoded-response-with-panic")
		}
		if cfg.Entry == "Nested" || cfg.Entry == "NestedFilter" {
			x.Count("reach:encoded-through-nested-container")
		}
		if !strings.Contains(strings.ToLower(r.AE), ce[0]) { // coding names are case-insensitive (RFC 9110 8.4.1)
			x.Violate("coding-not-accepted", "%s: encoded with %s", what, ce[0])
		}
		if !encodingEnabledFor(cfg, r) {
			x.Violate("encoded-though-disabled", "%s: encoded with %s although encoding is not enabled for this request", what, ce[0])
		}
		got, err := Decode(ce[0], res.W.Body)
		if err != nil {
			x.Violate("undecodable", "%s: body labelled %s does not decode completely: %v (decoded %d of %d bytes)", what, ce[0], err, len(got), len(want))
			continue
		}
		if !bodyEqualModuloStack(got, want) {
			x.Violate("decoded-body-differs", "%s: decoding the %s body gives %d bytes (%q), the bytes written are %d (%q)", what, ce[0], len(got), clip(string(got), 60), len(want), clip(string(want), 60))
		}
	}
	// harness self-check: the twin's body is what the harness recorded, wherever the harness wrote everything
	for _, r := range reqs {
		tw := r.res[1]
		libWrites := tw.Panicked && cfg.Recover == 1
		if t := targetEvent(cfg, r.Target); t == "" {
			libWrites = true
		}
		swapped := false
		for _, f := range cfg.effectiveFilters(r.Target) {
			if f.Kind == "swapbuf" {
				swapped = true // what sits in the buffer when a panic passes through is abandoned, not sent
			}
		}
		if swapped && (tw.Panicked || r.CancelAt != "") {
			continue
		}
		if !libWrites && !r.Early && !bytes.Equal(tw.W.Body, tw.App) {
			x.Violate("infra-twin-mismatch", "request %d: twin body %d bytes, harness wrote %d", r.ID, len(tw.W.Body), len(tw.App))
		}
	}
}
