package props

import (
	"fmt"
	restful "github.com/emicklei/go-restful/v3"
	"net/url"
	"regexp"
	"sort"
	"strings"

	"restsim/sim"
)

func init() {
	register(&PropInfo{ID: "C03", Run: runC03, UseRace: false, Level: "exploration"})
}

type c03Scen struct {
	Router   string    `json:"router"`
	Svcs     []SvcSpec `json:"services"`
	RouteOrd [][]int   `json:"route_order"`  // per service: permutation of its routes
	AddPos   []int     `json:"add_position"` // per service: Add happens before this many Route calls
	Preempt  int       `json:"preempt_permille"`
	NoTrim   bool      `json:"trim_right_slash_off,omitempty"`
	Traffic  []int     `json:"traffic_during_registration,omitempty"` // probe indices served by another task meanwhile; answers not judged
	// Burst: the long-lived server that keeps registering routes. The registrar of service BurstSvc-1
	// answers, before its BurstAt-th Route call, every probe once and then BurstN requests to as many
	// different URLs (of its own service, or of all when BurstAll). Not judged; see World.Burst.
	BurstSvc int  `json:"burst_by_registrar,omitempty"`
	BurstAt  int  `json:"burst_before_route_call,omitempty"`
	BurstN   int  `json:"burst_requests,omitempty"`
	BurstAll bool `json:"burst_over_all_services,omitempty"`
}

var c03RootsCurly = []string{"/a", "/{t}", "/a/b", "/a/{t}", "/b", "/", "/ab", "/{t}/b", "/a/{t}/{u}", "/{t}/{u}/c/d", "/{t}/b/{u}", "/a/b/{t}"}
var c03RootsJSR = []string{"/a", "/b", "/a/b", "/ab", "/", "/b/a"}
var c03Segs = []string{"a", "{v}", "b", "{v:[0-9]+}", "ab", "{v:[a-z]+}", "c++"} // the last one: a literal with characters that mean something else in a query string

// shape erases variable names (and, for the exclusion the statement makes, is compared only among
// same-method routes): templates that differ only in variable names have the same shape.
func c03Shape(tmpl string) string {
	var out []string
	for i, seg := range strings.Split(strings.Trim(tmpl, "/"), "/") {
		if strings.HasPrefix(seg, "{") {
			if c := strings.Index(seg, ":"); c >= 0 {
				out = append(out, "{"+seg[c:])
			} else {
				out = append(out, "{}")
			}
		} else {
			out = append(out, seg)
		}
		_ = i
	}
	return strings.Join(out, "/")
}

func genC03(x *Ctx) *c03Scen {
	tp := x.Tape
	sc := &c03Scen{}
	sc.Router = []string{"curly", "jsr311"}[tp.G(2)]
	roots := c03RootsCurly
	if sc.Router == "jsr311" {
		roots = c03RootsJSR
	}
	maxSvc, maxRoutes := 4, 6
	if x.Thorough() {
		maxSvc, maxRoutes = 6, 8
	}
	if maxSvc > len(roots) {
		maxSvc = len(roots)
	}
	perm := tp.Perm(len(roots))
	rid := 0
	// crowded: many routes of the same depth over few segment kinds, so that far more than eight
	// candidates are eligible for one URL (several slices in the routers are preallocated for eight)
	crowded := tp.Chance(80)
	if crowded {
		maxRoutes = 24
	}
	crowdSegs := []string{"a", "{v}", "{v:[0-9]+}", "{v:[a-z]+}"}
	deep := !crowded && tp.Chance(60)
	if deep {
		maxRoutes = 10
	}
	tp.Repeat(1, maxSvc, 650, func(i int) {
		sp := SvcSpec{ID: i, Root: roots[perm[i]], Dynamic: true}
		seen := map[string]bool{}
		minRoutes, more := 1, 700
		if crowded && i == 0 {
			minRoutes, more = 10, 900
		}
		if deep && i == 0 {
			minRoutes, more = 3, 850
		}
		tp.Repeat(minRoutes, maxRoutes, more, func(int) {
			depth := tp.Range(0, 3)
			var segs []string
			for d := 0; d < depth; d++ {
				segs = append(segs, c03Segs[tp.G(len(c03Segs))])
			}
			if crowded && i == 0 {
				depth = 2
				segs = []string{crowdSegs[tp.G(4)], crowdSegs[tp.G(4)]}
			}
			if deep && i == 0 {
				// deep templates: 8-12 segments, literals with a variable here and there, so that static
				// and parameter counts cross the one-digit boundary
				depth = tp.Range(8, 12)
				segs = nil
				for d := 0; d < depth; d++ {
					if tp.Chance(200) {
						segs = append(segs, "{v}")
					} else {
						segs = append(segs, "a")
					}
				}
			}
			if depth > 0 && sc.Router == "curly" && tp.Chance(150) {
				// custom verb on the last segment (CurlyRouter only): /jobs/{id}:run next to /jobs/all:run
				segs[depth-1] = []string{"{v}:run", "a:run", "b:run", "{v}:stop", "ab:abort", "{v}:abort"}[tp.G(6)]
			}
			if depth > 0 && tp.Chance(120) {
				segs[depth-1] = "{rest:*}"
			}
			// distinct variable names within a template
			for d := range segs {
				segs[d] = strings.Replace(segs[d], "{v", fmt.Sprintf("{v%d", d), 1)
			}
			path := "/" + strings.Join(segs, "/")
			if depth == 0 {
				path = ""
			}
			m := []string{"GET", "POST"}[tp.G(2)]
			key := m + " " + c03Shape(FullPath(sp.Root, path))
			if seen[key] {
				return // same method and same template up to variable names: excluded by the statement
			}
			seen[key] = true
			rid++
			r := RouteSpec{ID: rid, Method: m, Path: path}
			switch tp.G(4) {
			case 1:
				r.Consumes = []string{"application/json"}
			case 2:
				r.Produces = []string{"application/xml"}
			case 3:
				if tp.Bool() {
					r.Produces = []string{"application/json", "application/xml"}
				}
			}
			sp.Routes = append(sp.Routes, r)
			if depth > 0 && !strings.HasSuffix(path, "*}") && tp.Chance(100) {
				// the same template with a trailing slash, same method: two distinct templates that are
				// eligible for the same URLs and equally specific; which one answers must still not depend
				// on the order of registration
				rid++
				sp.Routes = append(sp.Routes, RouteSpec{ID: rid, Method: m, Path: path + "/", SlashTwin: true})
			}
		})
		sp.Repath = tp.Chance(150)
		sc.Svcs = append(sc.Svcs, sp)
	})
	sc.NoTrim = tp.Chance(100)
	if sc.NoTrim {
		// with TrimRightSlashEnabled=false route paths are built with path.Join, which drops the trailing
		// slash: the twins would be one and the same template, which the statement excludes
		for i := range sc.Svcs {
			var keep []RouteSpec
			for _, r := range sc.Svcs[i].Routes {
				if !r.SlashTwin {
					keep = append(keep, r)
				}
			}
			sc.Svcs[i].Routes = keep
		}
	}
	for _, sp := range sc.Svcs {
		sc.RouteOrd = append(sc.RouteOrd, tp.Perm(len(sp.Routes)))
		sc.AddPos = append(sc.AddPos, tp.G(len(sp.Routes)+1))
	}
	sc.Preempt = []int{400, 150, 700}[tp.G(3)]
	if tp.Chance(300) {
		np := len(c03Probes(sc))
		tp.Repeat(2, 10, 800, func(int) { sc.Traffic = append(sc.Traffic, tp.G(np)) })
	}
	if tp.Chance(15) {
		i := tp.G(len(sc.Svcs))
		sc.BurstSvc = i + 1
		sc.BurstAt = tp.G(len(sc.Svcs[i].Routes))
		sc.BurstN = []int{40, 140, 300, 560}[tp.G(4)]
		sc.BurstAll = tp.Chance(300)
	}
	return sc
}

func c03Probes(sc *c03Scen) []Probe {
	seen := map[string]bool{}
	var out []Probe
	add := func(p Probe) {
		if !seen[p.Key()] {
			seen[p.Key()] = true
			out = append(out, p)
		}
	}
	for _, sp := range sc.Svcs {
		for _, r := range sp.Routes {
			for v := 0; v < 4; v++ {
				path := instantiate(FullPath(sp.Root, r.Path), v)
				add(Probe{Method: "GET", Path: path})
				add(Probe{Method: "POST", Path: path, CT: "application/json", Body: true})
				if v == 0 {
					add(Probe{Method: "GET", Path: path, Accept: "application/xml"})
					// Accept headers as browsers send them: named types plus a wildcard, so every route stays
					// acceptable and only specificity may decide
					add(Probe{Method: "GET", Path: path, Accept: "application/xml;q=0.9, */*;q=0.8"})
					add(Probe{Method: "GET", Path: path, Accept: "text/html, application/json;q=0.9, */*;q=0.8"})
					add(Probe{Method: "POST", Path: path})
					add(Probe{Method: "PUT", Path: path})
					add(Probe{Method: "GET", Path: path + "/"})
					// the same URL spelled with a percent-escape a client is free to use (a '+' as %2B, or the first
					// letter of a segment as %61/%62): URL.Path is the same, URL.RawPath is set
					if esc := c03Escaped(path); esc != path {
						add(Probe{Method: "GET", Path: esc})
					}
				}
			}
		}
	}
	add(Probe{Method: "GET", Path: "/"})
	add(Probe{Method: "GET", Path: "/zz/zz"})
	return out
}

// ---- the reference matcher for exactly this generator grammar (oracle B) -------------------------

func c03SegMatch(tseg, useg string) bool {
	if i := strings.Index(tseg, "}:"); strings.HasPrefix(tseg, "{") && i > 0 {
		// a variable followed by a custom verb: the verb, with something in front of it
		verb := tseg[i+1:]
		return strings.HasSuffix(useg, verb) && len(useg) > len(verb)
	}
	switch {
	case strings.HasPrefix(tseg, "{") && strings.Contains(tseg, ":[0-9]+"):
		return regexp.MustCompile(`[0-9]+`).MatchString(useg)
	case strings.HasPrefix(tseg, "{") && strings.Contains(tseg, ":[a-z]+"):
		return regexp.MustCompile(`[a-z]+`).MatchString(useg)
	case strings.HasPrefix(tseg, "{"):
		return useg != ""
	}
	return tseg == useg
}

// c03Escaped spells one character of the path as a percent-escape.
func c03Escaped(path string) string {
	if i := strings.Index(path, "+"); i >= 0 {
		return path[:i] + "%2B" + path[i+1:]
	}
	if i := strings.LastIndex(path, "/a"); i >= 0 {
		return path[:i] + "/%61" + path[i+2:]
	}
	if i := strings.LastIndex(path, "/b"); i >= 0 {
		return path[:i] + "/%62" + path[i+2:]
	}
	return path
}

func c03Tokens(p string) []string {
	if u, err := url.PathUnescape(p); err == nil {
		p = u
	}
	p = strings.Trim(p, "/")
	if p == "" {
		return nil
	}
	return strings.Split(p, "/")
}

// dominates: same number of segments, no tail wildcard, x has a literal wherever y has one (the
// same), and a literal in at least one position where y has a variable.
func c03Dominates(x, y []string) bool {
	if len(x) != len(y) {
		return false
	}
	strict := false
	for i := range x {
		xv, yv := strings.HasPrefix(x[i], "{"), strings.HasPrefix(y[i], "{")
		if strings.HasSuffix(x[i], ":*}") || strings.HasSuffix(y[i], ":*}") {
			return false
		}
		switch {
		case !xv && !yv:
			if x[i] != y[i] {
				return false
			}
		case !xv && yv:
			strict = true
		case xv && !yv:
			return false
		default:
			if c03Shape(x[i]) != c03Shape(y[i]) {
				return false
			}
		}
	}
	return strict
}

func runC03(x *Ctx) {
	sc := genC03(x)
	restful.TrimRightSlashEnabled = !sc.NoTrim
	x.Res.Scenario = sc
	x.Res.ScenHash = sim.HashString(jsonStr(sc))
	s := x.Sim
	s.Preempt = sc.Preempt
	w := &World{Svcs: sc.Svcs, Router: sc.Router}
	w.index()
	empty := RegState{Routes: map[int][]int{}}
	for _, sp := range sc.Svcs {
		empty.Routes[sp.ID] = []int{}
	}
	w.Start(empty)
	if sc.BurstSvc > 0 {
		w.BurstProbes = c03Probes(sc)
		s.MaxSteps += 14 * (sc.BurstN + len(w.BurstProbes))
		x.Count("reach:burst-of-distinct-urls")
		x.CountN("burst-requests", sc.BurstN)
	}
	// one registrar per service: its Route calls in a permuted order, its Add somewhere among them
	for i, sp := range sc.Svcs {
		i, sp := i, sp
		s.Go(fmt.Sprintf("registrar%d", sp.ID), func(t *sim.Task) {
			for k, ri := range sc.RouteOrd[i] {
				if k == sc.AddPos[i] {
					w.Do(AdminOp{Kind: "add", Svc: sp.ID})
					t.Y(sim.SiteAdminPost)
				}
				if i == sc.BurstSvc-1 && k == sc.BurstAt {
					focus := sp.ID + 1
					if sc.BurstAll {
						focus = 0
					}
					w.Do(AdminOp{Kind: "burst", N: sc.BurstN, Focus: focus})
					t.Y(sim.SiteAdminPost)
				}
				w.Do(AdminOp{Kind: "route", Svc: sp.ID, Route: sp.Routes[ri].ID})
				t.Y(sim.SiteAdminPost)
			}
			if sc.AddPos[i] >= len(sc.RouteOrd[i]) {
				w.Do(AdminOp{Kind: "add", Svc: sp.ID})
			}
		})
	}
	if len(sc.Traffic) > 0 {
		// requests in flight while the table is being registered: whatever they compute or keep must
		// not show in the answers once registration is complete
		tprobes := c03Probes(sc)
		s.Go("traffic", func(t *sim.Task) {
			for k, pi := range sc.Traffic {
				t.Req = 1000 + k
				ServeProbe(w.C, k%2, tprobes[pi], t, 1000+k)
				t.Y(sim.SiteCheckpoint)
			}
		})
	}
	if !s.Run() {
		return
	}
	for _, t := range s.Tasks {
		if t.Escaped != nil {
			x.Violate("registration-panic", "task %s panicked: %v (%s)", t.Name, t.Escaped, trimStack(t.EscStack))
			return
		}
	}
	// canonical build: services sorted by root, routes by (path, method), one goroutine
	canon := RegState{Routes: map[int][]int{}}
	order := append([]SvcSpec{}, sc.Svcs...)
	sort.Slice(order, func(a, b int) bool { return order[a].Root < order[b].Root })
	for _, sp := range order {
		rs := append([]RouteSpec{}, sp.Routes...)
		sort.Slice(rs, func(a, b int) bool {
			if rs[a].Path != rs[b].Path {
				return rs[a].Path < rs[b].Path
			}
			return rs[a].Method < rs[b].Method
		})
		canon.Members = append(canon.Members, sp.ID)
		for _, r := range rs {
			canon.Routes[sp.ID] = append(canon.Routes[sp.ID], r.ID)
		}
	}
	cc := w.Fresh(canon)
	var regOrder []string
	for _, ws := range w.C.RegisteredWebServices() {
		regOrder = append(regOrder, ws.RootPath())
	}
	probes := c03Probes(sc)
	for _, p := range probes {
		for entry := 0; entry < 2; entry++ {
			got := ServeProbe(w.C, entry, p, nil, 0)
			want := ServeProbe(cc, entry, p, nil, 0)
			if entry == EntryServeHTTP && (got.Status == 301 || want.Status == 301) {
				// A 301 is never produced by the library: it is net/http.ServeMux redirecting /p to /p/ because
				// the pattern set holds /p/ and not /p. Which patterns are on the mux depends on whether a
				// service on / was added earlier (C11 pins that down "in the same order"); the statement here
				// ranks routes and root paths in the routers, so such probes are compared through Dispatch only.
				x.Count("mux-redirect-probes-skipped")
				continue
			}
			if got.Key() != want.Key() {
				x.Violate("order-dependent", "%s %s (ct=%q accept=%q) via %s: services registered as %v with route orders %v answer %s; the same table registered in sorted order answers %s",
					p.Method, p.Path, p.CT, p.Accept, entryName(entry), regOrder, sc.RouteOrd, got.Key(), want.Key())
				return
			}
			// oracle B (input-level): the selected route is not dominated by another eligible one
			if entry == 1 && p.Method == "GET" && (p.Accept == "" || strings.Contains(p.Accept, "*/*")) && got.Status == 200 && got.Routes != "" {
				c03CheckDominance(x, sc, w, p, got)
			}
		}
	}
	x.CountN("probe-comparisons", 2*len(probes))
	nonIdentity := false
	for i := range sc.RouteOrd {
		for k, v := range sc.RouteOrd[i] {
			if k != v {
				nonIdentity = true
			}
		}
	}
	x.Res.Nontrivial = nonIdentity || len(sc.Svcs) > 1
	if s.Counts["preemptions"] > 0 {
		x.Count("reach:registrars-interleaved")
	}
}

func c03CheckDominance(x *Ctx, sc *c03Scen, w *World, p Probe, got Outcome) {
	var selID int
	fmt.Sscanf(got.Routes, "%d", &selID)
	selSvc := w.svc(w.RouteOf[selID])
	sel := w.RouteBy[selID]
	ut := c03Tokens(p.Path)
	matches := func(tmpl string) bool {
		tt := c03Tokens(tmpl)
		if len(tt) != len(ut) {
			return false
		}
		for i := range tt {
			if strings.HasSuffix(tt[i], ":*}") || !c03SegMatch(tt[i], ut[i]) {
				return false
			}
		}
		return true
	}
	selFull := FullPath(selSvc.Root, sel.Path)
	// root paths first: the statement ranks them on their own. A root that matches the URL as a prefix
	// and continues the selected root (the selected one is its own prefix), or that has a literal where
	// the selected root has a variable (same length, same shape otherwise), should have claimed the request.
	st := c03Tokens(selSvc.Root)
	for _, sp := range sc.Svcs {
		if sp.ID == selSvc.ID {
			continue
		}
		rt := c03Tokens(sp.Root)
		if len(rt) > len(ut) || len(rt) < len(st) {
			continue
		}
		matchesURL := true
		for i := range rt {
			if strings.HasSuffix(rt[i], ":*}") || !c03SegMatch(rt[i], ut[i]) {
				matchesURL = false
			}
		}
		if !matchesURL {
			continue
		}
		if len(rt) > len(st) {
			prefix := true
			for i := range st {
				if st[i] != rt[i] {
					prefix = false
				}
			}
			if prefix {
				x.Violate("less-specific-selected", "GET %s was answered by the service on root %q although the longer root %q matches the URL too and continues it (a longer matching root beats its own prefix)", p.Path, selSvc.Root, sp.Root)
				return
			}
		} else if c03Dominates(rt, st) {
			x.Violate("less-specific-selected", "GET %s was answered by the service on root %q although root %q matches the URL too and has a literal where the selected root has a variable", p.Path, selSvc.Root, sp.Root)
			return
		}
	}
	for _, sp := range sc.Svcs {
		for _, r := range sp.Routes {
			if r.ID == selID || r.Method != "GET" {
				continue
			}
			full := FullPath(sp.Root, r.Path)
			if !matches(full) || !matches(selFull) {
				continue
			}
			// only comparable when the root/route split is the same: the statement ranks roots and routes separately
			if len(c03Tokens(sp.Root)) != len(c03Tokens(selSvc.Root)) {
				continue
			}
			if c03Dominates(c03Tokens(full), c03Tokens(selFull)) {
				x.Violate("less-specific-selected", "GET %s selected route %s although %s is eligible too and has a literal where the selected one has a variable", p.Path, selFull, full)
				return
			}
		}
	}
}
