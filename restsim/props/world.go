package props

import (
	"fmt"
	"net/http"
	"path"
	"sort"
	"strings"

	restful "github.com/emicklei/go-restful/v3"

	"restsim/sim"
)

// ---- route tables --------------------------------------------------------------------------

type RouteSpec struct {
	ID        int      `json:"id"`
	Method    string   `json:"method"`
	Path      string   `json:"path"` // relative to the service root
	Consumes  []string `json:"consumes,omitempty"`
	Produces  []string `json:"produces,omitempty"`
	NFilters  int      `json:"filters,omitempty"`
	Cond      bool     `json:"if,omitempty"`                  // has an If-condition (always true) that is a schedule point
	SlashTwin bool     `json:"trailing_slash_twin,omitempty"` // same method and template as the route before it, plus a trailing slash
}

type SvcSpec struct {
	ID       int         `json:"id"`
	Root     string      `json:"root"`
	Dynamic  bool        `json:"dynamic,omitempty"`
	Repath   bool        `json:"path_set_twice,omitempty"` // live service only: Path(other) then Path(root)
	NFilters int         `json:"filters,omitempty"`
	Routes   []RouteSpec `json:"routes"`
}

// FullPath is what the library stores in Route.Path (needed by RemoveRoute).
func FullPath(root, sub string) string {
	if !restful.TrimRightSlashEnabled {
		return path.Join(root, sub) // the 3.10.2 behaviour the package variable switches to
	}
	return strings.TrimRight(root, "/") + "/" + strings.TrimLeft(sub, "/")
}

// routeFunc is the generated route function: it makes itself observable through response headers
// (Add, so a second invocation shows) and is a schedule point.
func routeFunc(id int, hook *func(int)) restful.RouteFunction {
	return func(req *restful.Request, resp *restful.Response) {
		if t := sim.Cur(); t != nil {
			t.Ev("route", "", id)
			t.Y(sim.SiteHandler)
			if hook != nil && *hook != nil {
				(*hook)(id)
			}
		}
		resp.Header().Add("X-Route", fmt.Sprint(id))
		resp.Header().Set("X-Params", kv(req.PathParameters()))
		resp.Header().Set("X-Sel", req.SelectedRoutePath())
		resp.WriteHeader(200)
		resp.Write([]byte(fmt.Sprintf("ok:%d", id)))
	}
}

func passFilter(tag string) restful.FilterFunction {
	return func(req *restful.Request, resp *restful.Response, chain *restful.FilterChain) {
		if t := sim.Cur(); t != nil {
			t.Y(sim.SiteFilterPre)
		}
		resp.Header().Add("X-Filter", tag)
		chain.ProcessFilter(req, resp)
		if t := sim.Cur(); t != nil {
			t.Y(sim.SiteFilterPost)
		}
	}
}

func condTrue(r *http.Request) bool {
	if t := sim.Cur(); t != nil {
		t.Count("reach:yield-inside-read-lock")
		t.Y(sim.SiteCond)
	}
	if r.Header.Get("X-Boom") != "" {
		// user code panicking inside route selection, i.e. inside the read-locked region
		if t := sim.Cur(); t != nil {
			t.Count("fault-panic-in-route-condition")
		}
		panic("boom-in-condition")
	}
	return true
}

// BuildRoute turns a spec into a RouteBuilder on ws.
func BuildRoute(ws *restful.WebService, r RouteSpec, hook *func(int)) *restful.RouteBuilder {
	b := ws.Method(r.Method).Path(r.Path).To(routeFunc(r.ID, hook))
	if len(r.Consumes) > 0 {
		b.Consumes(r.Consumes...)
	}
	if len(r.Produces) > 0 {
		b.Produces(r.Produces...)
	}
	for i := 0; i < r.NFilters; i++ {
		b.Filter(passFilter(fmt.Sprintf("r%d.%d", r.ID, i)))
	}
	if r.Cond {
		b.If(condTrue)
	}
	return b
}

// BuildService creates the WebService with the given routes (in that order).
func BuildService(s SvcSpec, routes []RouteSpec, hook *func(int)) *restful.WebService {
	ws := new(restful.WebService)
	if s.Repath && hook != nil {
		// a configuration history: the root path is set twice (a shared constructor, then the real
		// path); only the last call may count. The fresh reference services set it once.
		ws.Path("/zz/{early}")
	}
	ws.Path(s.Root)
	ws.SetDynamicRoutes(s.Dynamic)
	for i := 0; i < s.NFilters; i++ {
		ws.Filter(passFilter(fmt.Sprintf("s%d.%d", s.ID, i)))
	}
	for _, r := range routes {
		ws.Route(BuildRoute(ws, r, hook))
	}
	return ws
}

// ---- registration model ---------------------------------------------------------------------

// RegState is the reference model of a container's registration state: which services are in
// the container (ordered), which routes each known service holds (ordered), which plain handlers
// are registered (ordered).
type RegState struct {
	Members []int         // service ids in Add order
	Routes  map[int][]int // service id -> route ids in Route order (for every known service)
	Plain   []int         // plain handler ids in Handle order
	// Twins: route id -> all route ids of the same service with the same method and path (itself
	// included). RemoveRoute(path, method) removes them all. Immutable, shared between states.
	Twins map[int][]int
}

func (s RegState) Clone() RegState {
	c := RegState{Members: append([]int{}, s.Members...), Routes: map[int][]int{}, Plain: append([]int{}, s.Plain...), Twins: s.Twins}
	for k, v := range s.Routes {
		c.Routes[k] = append([]int{}, v...)
	}
	return c
}

func (s RegState) Key() string {
	var sb strings.Builder
	sb.WriteString("M")
	for _, m := range s.Members {
		fmt.Fprintf(&sb, ",%d", m)
	}
	ids := make([]int, 0, len(s.Routes))
	for k := range s.Routes {
		ids = append(ids, k)
	}
	sort.Ints(ids)
	for _, k := range ids {
		fmt.Fprintf(&sb, "|S%d", k)
		for _, r := range s.Routes[k] {
			fmt.Fprintf(&sb, ",%d", r)
		}
	}
	sb.WriteString("|P")
	for _, p := range s.Plain {
		fmt.Fprintf(&sb, ",%d", p)
	}
	return sb.String()
}

// AdminOp is one registration operation.
type AdminOp struct {
	Kind  string `json:"op"` // add | remove | route | unroute | handle | handlef
	Svc   int    `json:"svc"`
	Route int    `json:"route,omitempty"`
	Plain int    `json:"plain,omitempty"`
	N     int    `json:"n,omitempty"`     // burst: so many requests to as many different URLs
	Focus int    `json:"focus,omitempty"` // burst: 0 = URLs of all services, k = of service k-1 only
}

func (o AdminOp) String() string {
	switch o.Kind {
	case "add", "remove":
		return fmt.Sprintf("%s(s%d)", o.Kind, o.Svc)
	case "route", "unroute":
		return fmt.Sprintf("%s(s%d,r%d)", o.Kind, o.Svc, o.Route)
	case "burst":
		return fmt.Sprintf("burst(%d,focus=%d)", o.N, o.Focus-1)
	}
	return fmt.Sprintf("%s(p%d)", o.Kind, o.Plain)
}

func removeInt(xs []int, v int) []int {
	out := xs[:0:0]
	for _, x := range xs {
		if x != v {
			out = append(out, x)
		}
	}
	return out
}

func containsInt(xs []int, v int) bool {
	for _, x := range xs {
		if x == v {
			return true
		}
	}
	return false
}

// Apply is the model's transition function.
func (s RegState) Apply(o AdminOp) RegState {
	n := s.Clone()
	switch o.Kind {
	case "add":
		if !containsInt(n.Members, o.Svc) {
			n.Members = append(n.Members, o.Svc)
		}
	case "remove":
		n.Members = removeInt(n.Members, o.Svc)
	case "route":
		n.Routes[o.Svc] = append(n.Routes[o.Svc], o.Route)
	case "unroute":
		n.Routes[o.Svc] = removeInt(n.Routes[o.Svc], o.Route)
		for _, tw := range n.Twins[o.Route] {
			n.Routes[o.Svc] = removeInt(n.Routes[o.Svc], tw)
		}
	case "handle", "handlef":
		n.Plain = append(n.Plain, o.Plain)
	case "handle-dup":
		// rejected (Handle panics on a pattern that is taken): no change
	case "burst":
		// requests are no registration operation: no change
	}
	return n
}

// World binds specs to a live container and applies admin operations to it.
type World struct {
	Svcs    []SvcSpec
	RouteBy map[int]RouteSpec
	RouteOf map[int]int // route id -> service id
	Plains  []PlainSpec
	Router  string // curly | jsr311
	Filters int    // container filters
	Recover bool
	// Reentrant adds a container filter that, like the library's own OPTIONS and CORS filters, asks
	// the container for its registered services while the request is in flight.
	Reentrant bool
	// Options installs the container's OPTIONSFilter: OPTIONS requests are answered from the
	// registration state (computeAllowedMethods reads services and routes).
	Options bool
	// OnRoute runs inside every route function (live container only).
	OnRoute func(routeID int)

	C    *restful.Container
	Live map[int]*restful.WebService

	// BurstProbes are answered once at the start of every burst (see Burst).
	BurstProbes []Probe
	burstSeq    int
}

// Burst is the long-lived server between two registration changes: the container answers the scenario's
// probes once and then n requests to n different URLs (every template of the scenario instantiated with
// values never used before, registered at the moment or not). Nothing is judged here; what the requests
// leave behind - caches keyed by path that fill and rotate, counters, pools - must not show in any
// later answer. Runs on the caller's task (schedule points at the lock hooks only).
func (w *World) Burst(n int, focus int) {
	for i, p := range w.BurstProbes {
		ServeProbe(w.C, i%2, p, nil, 0)
	}
	type tm struct{ m, full string }
	var ts []tm
	for _, sp := range w.Svcs {
		if focus >= 0 && sp.ID != focus {
			continue
		}
		for _, r := range sp.Routes {
			ts = append(ts, tm{r.Method, FullPath(sp.Root, r.Path)})
		}
	}
	if len(ts) == 0 {
		return
	}
	for k := 0; k < n; k++ {
		t := ts[k%len(ts)]
		w.burstSeq++
		p := Probe{Method: t.m, Path: instantiateN(t.full, w.burstSeq)}
		if w.Options && k%3 == 2 {
			p.Method = "OPTIONS"
		}
		if k%5 == 4 {
			p.Accept = fmt.Sprintf("application/json; v=%d, */*;q=0.1", w.burstSeq)
		}
		ServeProbe(w.C, k%2, p, nil, 0)
	}
	if t := sim.Cur(); t != nil {
		t.Count("reach:burst-of-distinct-urls")
	}
}

type PlainSpec struct {
	ID         int    `json:"id"`
	Pattern    string `json:"pattern"`
	WithFilter bool   `json:"with_filter,omitempty"`
}

func (w *World) index() {
	w.RouteBy = map[int]RouteSpec{}
	w.RouteOf = map[int]int{}
	for _, s := range w.Svcs {
		for _, r := range s.Routes {
			w.RouteBy[r.ID] = r
			w.RouteOf[r.ID] = s.ID
		}
	}
}

func (w *World) svc(id int) SvcSpec {
	for _, s := range w.Svcs {
		if s.ID == id {
			return s
		}
	}
	panic("harness: unknown service")
}

func (w *World) newContainer() *restful.Container {
	c := restful.NewContainer()
	if w.Router == "jsr311" {
		c.Router(restful.RouterJSR311{})
	}
	c.DoNotRecover(!w.Recover)
	for i := 0; i < w.Filters; i++ {
		c.Filter(passFilter(fmt.Sprintf("c%d", i)))
	}
	if w.Options {
		c.Filter(c.OPTIONSFilter)
	}
	if w.Reentrant {
		c.Filter(func(req *restful.Request, resp *restful.Response, chain *restful.FilterChain) {
			if t := sim.Cur(); t != nil {
				t.Count("reach:reentrant-filter-ran")
				t.Y(sim.SiteFilterPre)
			}
			resp.Header().Set("X-Services", fmt.Sprint(len(c.RegisteredWebServices()) >= 0))
			chain.ProcessFilter(req, resp)
		})
	}
	return c
}

func plainHandler(id int) http.Handler {
	return http.HandlerFunc(func(rw http.ResponseWriter, r *http.Request) {
		if t := sim.Cur(); t != nil {
			t.Y(sim.SiteHandler)
		}
		rw.Header().Add("X-Plain", fmt.Sprint(id))
		rw.WriteHeader(204)
	})
}

// Fresh builds a new container holding exactly the state, using Add/Route/Handle only, in order.
func (w *World) Fresh(st RegState) *restful.Container {
	c := w.newContainer()
	for _, id := range st.Members {
		sp := w.svc(id)
		var rs []RouteSpec
		for _, rid := range st.Routes[id] {
			rs = append(rs, w.RouteBy[rid])
		}
		c.Add(BuildService(sp, rs, nil))
	}
	for _, pid := range st.Plain {
		p := w.Plains[pid]
		if p.WithFilter {
			c.HandleWithFilter(p.Pattern, plainHandler(p.ID))
		} else {
			c.Handle(p.Pattern, plainHandler(p.ID))
		}
	}
	return c
}

// Start creates the live container and live service objects for an initial state.
func (w *World) Start(st RegState) {
	w.C = w.newContainer()
	w.Live = map[int]*restful.WebService{}
	for _, sp := range w.Svcs {
		var rs []RouteSpec
		for _, rid := range st.Routes[sp.ID] {
			rs = append(rs, w.RouteBy[rid])
		}
		w.Live[sp.ID] = BuildService(sp, rs, &w.OnRoute)
	}
	for _, id := range st.Members {
		w.C.Add(w.Live[id])
	}
}

// Do applies one admin operation to the live container.
func (w *World) Do(o AdminOp) {
	switch o.Kind {
	case "add":
		w.C.Add(w.Live[o.Svc])
	case "remove":
		w.C.Remove(w.Live[o.Svc])
	case "route":
		ws := w.Live[o.Svc]
		ws.Route(BuildRoute(ws, w.RouteBy[o.Route], &w.OnRoute))
	case "unroute":
		r := w.RouteBy[o.Route]
		w.Live[o.Svc].RemoveRoute(FullPath(w.svc(o.Svc).Root, r.Path), r.Method)
	case "handle":
		w.C.Handle(w.Plains[o.Plain].Pattern, plainHandler(o.Plain))
	case "handlef":
		w.C.HandleWithFilter(w.Plains[o.Plain].Pattern, plainHandler(o.Plain))
	case "burst":
		w.Burst(o.N, o.Focus-1)
	case "handle-dup":
		func() {
			defer func() {
				if recover() != nil {
					if t := sim.Cur(); t != nil {
						t.Count("reach:rejected-handle-call")
					}
				}
			}()
			// a different handler for a pattern that is taken: if it ever becomes live, probes show it
			w.C.Handle(w.Plains[o.Plain].Pattern, plainHandler(1000+o.Plain))
		}()
	}
}

// ---- probes and outcomes ------------------------------------------------------------------------

type Probe struct {
	Method string `json:"m"`
	Path   string `json:"p"`
	CT     string `json:"ct,omitempty"`
	Accept string `json:"accept,omitempty"`
	Body   bool   `json:"body,omitempty"`
	Boom   bool   `json:"boom,omitempty"` // makes every If-condition it reaches panic
}

func (p Probe) Key() string {
	return p.Method + " " + p.Path + " ct=" + p.CT + " acc=" + p.Accept + fmt.Sprint(p.Body, p.Boom)
}

func (p Probe) Request(t *sim.Task, id int) *http.Request {
	hdr := map[string]string{}
	if p.CT != "" {
		hdr["Content-Type"] = p.CT
	}
	if p.Accept != "" {
		hdr["Accept"] = p.Accept
	}
	if p.Boom {
		hdr["X-Boom"] = "1"
	}
	if p.Body {
		return NewReq(p.Method, p.Path, hdr, &sim.SimBody{Data: []byte("{}")}, 2, id)
	}
	return NewReq(p.Method, p.Path, hdr, nil, 0, id)
}

// Outcome is everything the framework decides about one response (error bodies excluded: the
// text differs between mux-level and router-level 404s and no property decides it).
type Outcome struct {
	Status  int
	Routes  string // X-Route values joined: exactly one id when a route function ran once
	Params  string
	Sel     string
	Allow   string // sorted set
	Plain   string
	Filters string
	Escaped string
}

func (o Outcome) Key() string {
	return fmt.Sprintf("%d|r=%s|p=%s|sel=%s|allow=%s|plain=%s|f=%s|esc=%s", o.Status, o.Routes, o.Params, o.Sel, o.Allow, o.Plain, o.Filters, o.Escaped)
}

func outcomeOf(w *sim.SimWriter, escaped interface{}) Outcome {
	o := Outcome{Status: w.Status()}
	o.Routes = strings.Join(w.H["X-Route"], "+")
	o.Params = w.H.Get("X-Params")
	o.Sel = w.H.Get("X-Sel")
	o.Plain = strings.Join(w.H["X-Plain"], "+")
	o.Filters = strings.Join(w.H["X-Filter"], "+")
	if a := w.H.Get("Allow"); a != "" {
		parts := strings.Split(a, ",")
		for i := range parts {
			parts[i] = strings.TrimSpace(parts[i])
		}
		sort.Strings(parts)
		o.Allow = strings.Join(parts, ",")
	}
	if escaped != nil {
		o.Escaped = fmt.Sprint(escaped)
	}
	return o
}

// ServeProbe sends one probe. With t == nil it runs sequentially on the scheduler goroutine
// (no yields); with a task it yields at every simulated I/O call.
func ServeProbe(c *restful.Container, entry int, p Probe, t *sim.Task, id int) Outcome {
	w := sim.NewSimWriter(t)
	esc := Serve(c, entry, w, p.Request(t, id))
	return outcomeOf(w, esc)
}

// Reference memoises fresh-container outcomes per (state, probe, entry).
type Reference struct {
	W     *World
	memo  map[string]Outcome
	conts map[string]*restful.Container
	Built int
}

func NewReference(w *World) *Reference {
	return &Reference{W: w, memo: map[string]Outcome{}, conts: map[string]*restful.Container{}}
}

func (r *Reference) Outcome(st RegState, entry int, p Probe) Outcome {
	sk := st.Key()
	k := sk + "#" + fmt.Sprint(entry) + "#" + p.Key()
	if o, ok := r.memo[k]; ok {
		return o
	}
	c := r.conts[sk]
	if c == nil {
		c = r.W.Fresh(st)
		r.conts[sk] = c
		r.Built++
	}
	o := ServeProbe(c, entry, p, nil, 0)
	r.memo[k] = o
	return o
}

// ---- generators -----------------------------------------------------------------------------------

// instantiate produces a concrete URL path for a template; variant selects values so that both
// matching and near-miss paths are produced.
func instantiate(template string, variant int) string {
	if template == "" || template == "/" {
		return "/"
	}
	var out []string
	for i, seg := range strings.Split(strings.Trim(template, "/"), "/") {
		switch {
		case strings.HasPrefix(seg, "{") && strings.Contains(seg, "}:"):
			// variable with a custom verb: value, then the verb (or a near miss)
			verb := seg[strings.Index(seg, "}:")+1:]
			out = append(out, []string{"x", "a", "7", "b"}[(variant+i)%4]+[]string{verb, verb, ":other", verb}[(variant+i)%4])
		case strings.HasPrefix(seg, "{") && strings.HasSuffix(seg, ":*}"):
			out = append(out, []string{"p/q", "t", "7/8/9"}[(variant+i)%3])
		case strings.HasPrefix(seg, "{") && strings.Contains(seg, ":[0-9]+"):
			out = append(out, []string{"7", "42", "x7"}[(variant+i)%3])
		case strings.HasPrefix(seg, "{") && strings.Contains(seg, ":[a-z]+"):
			out = append(out, []string{"ab", "q", "Q9"}[(variant+i)%3])
		case strings.HasPrefix(seg, "{"):
			out = append(out, []string{"x", "7", "ab", "a"}[(variant+i)%4])
		default:
			out = append(out, seg)
		}
	}
	return "/" + strings.Join(out, "/")
}

// instantiateN fills a template with values that depend on n alone: different n, different URL
// (templates without any variable get a query string).
func instantiateN(template string, n int) string {
	if template == "" || template == "/" {
		return fmt.Sprintf("/?n=%d", n)
	}
	letters := func(k int) string {
		out := ""
		for k > 0 || out == "" {
			out += string(rune('a' + k%26))
			k /= 26
		}
		return "n" + out
	}
	var out []string
	vars := 0
	for _, seg := range strings.Split(strings.Trim(template, "/"), "/") {
		switch {
		case strings.HasPrefix(seg, "{") && strings.Contains(seg, "}:"):
			out = append(out, fmt.Sprintf("n%d", n)+seg[strings.Index(seg, "}:")+1:])
			vars++
		case strings.HasPrefix(seg, "{") && strings.HasSuffix(seg, ":*}"):
			out = append(out, fmt.Sprintf("n%d/z", n))
			vars++
		case strings.HasPrefix(seg, "{") && strings.Contains(seg, ":[0-9]+"):
			out = append(out, fmt.Sprint(1000+n))
			vars++
		case strings.HasPrefix(seg, "{") && strings.Contains(seg, ":[a-z]+"):
			out = append(out, letters(n))
			vars++
		case strings.HasPrefix(seg, "{"):
			out = append(out, fmt.Sprintf("n%d", n))
			vars++
		default:
			out = append(out, seg)
		}
	}
	p := "/" + strings.Join(out, "/")
	if vars == 0 && n%2 == 0 {
		p += fmt.Sprintf("/n%d", n) // another path below the same root (no route: the service is asked all the same)
	} else if vars == 0 {
		p += fmt.Sprintf("?n=%d", n)
	}
	return p
}
