package props

import (
	"fmt"
	"os"
	"runtime/debug"
	"sort"
	"strings"

	"restsim/sim"
)

// RunSpec identifies one simulated run.
type RunSpec struct {
	Prop      string
	Tier      string
	Seed      uint64 // batch seed (VERIF_SEED)
	Index     uint64
	Replay    bool
	SchedSeed uint64 // with Replay: replay Gen only and draw the schedule from this seed (0: replay both)
	Gen       []uint32
	Sched     []uint32
	Race      bool
	Keep      bool // keep scenario, tapes and full trace in the result
}

// Execute performs one run in this process. The boolean result says whether the process may be
// reused for another run (false after an abnormal end: parked goroutines are left behind).
func Execute(spec RunSpec) (res *Result, reusable bool) {
	info := Registry[spec.Prop]
	if info == nil {
		fmt.Fprintf(os.Stderr, "unknown property %q\n", spec.Prop)
		os.Exit(2)
	}
	var tape *sim.Tape
	runSeed := sim.Mix(spec.Seed, spec.Prop+"/"+spec.Tier, spec.Index)
	if spec.Replay && spec.SchedSeed != 0 {
		tape = sim.ReplayGenTape(spec.Gen, spec.SchedSeed)
	} else if spec.Replay {
		tape = sim.ReplayTape(spec.Gen, spec.Sched)
	} else {
		tape = sim.NewTape(runSeed)
		if info.Enum != nil {
			if n := info.Enum(spec.Tier); spec.Index < uint64(n) {
				tape.Force = []uint32{uint32(spec.Index) + 1}
			} else {
				tape.Force = []uint32{0}
			}
		}
	}
	res = &Result{Prop: spec.Prop, Index: spec.Index, Seed: runSeed, Counts: map[string]int{}}
	s := sim.NewSim(tape)
	s.KeepTrace = spec.Keep
	x := &Ctx{Prop: spec.Prop, Tier: spec.Tier, Tape: tape, Sim: s, Res: res, Race: spec.Race}
	ResetGlobals()
	schedPanic := false
	func() {
		defer func() {
			if p := recover(); p != nil {
				// a panic on the scheduler goroutine: harness code or library code called sequentially
				s.Violate("panic-on-scheduler", "panic outside any task: %v\n%s", p, trimStack(string(debug.Stack())))
				schedPanic = true
			}
		}()
		info.Run(x)
	}()
	if s.Abnormal == "" {
		// after an abnormal end the task goroutines stay parked and were never joined: touching the
		// globals they read would look like a race to the detector (the process is replaced anyway)
		ResetGlobals()
	}
	res.Steps = s.Step
	if res.TraceHash == 0 {
		res.TraceHash = s.TraceHash()
	}
	res.Abnormal = s.Abnormal
	for k, v := range s.Counts {
		res.Counts[k] += v
	}
	if s.Abnormal == "stall" {
		class, where := sim.StallClass(s.StallDump)
		res.Counts["stall:"+class]++
		if class == "blocked-on-channel" {
			s.Violate("blocked-on-channel", "the running task blocked for real on a channel operation: %s", where)
		} else {
			s.Violate("infra-stall", "watchdog: running task stuck (%s) %s", class, where)
		}
	}
	if s.Abnormal == "" {
		// signals every scenario shares: a pooled object used after its release, and simulated I/O of one
		// request touched from another request's goroutine (a compressor shared between two responses)
		seen := map[string]bool{}
		for _, e := range s.Events() {
			switch e.Kind {
			case "nested-release-not-held":
				if !seen[e.Kind] {
					seen[e.Kind] = true
					s.Violate("release-not-held", "while serving request %d the library released a %s it had borrowed from the provider for its own use twice (or never acquired it)", e.Req, e.S)
				}
			case "foreign-writer-use", "foreign-body-use":
				if !seen[e.Kind] {
					seen[e.Kind] = true
					s.Violate(e.Kind, "while serving request %d, task %d wrote to / read from the simulated I/O of a request served by task %d (%s)", e.Req, e.Task, e.N, e.S)
				}
			}
		}
	}
	res.Violations = s.Viol
	res.OK = len(s.Viol) == 0
	if !res.OK {
		res.Class = s.Viol[0].Class
		res.Detail = s.Viol[0].Detail
	}
	res.Gen = tape.Gen
	res.Sched = tape.Sched
	res.Blocks = tape.Blocks
	if spec.Keep {
		var tr []string
		for _, e := range s.Trace {
			name := "?"
			if e.Task < len(s.Tasks) {
				name = s.Tasks[e.Task].Name
			}
			tr = append(tr, fmt.Sprintf("%d %s %s %s", e.Step, name, kindName(e.Kind), e.Site))
		}
		res.Counts["trace-len"] = len(tr)
		if x.Descr == nil {
			x.Descr = map[string]interface{}{}
		}
		x.Descr["schedule"] = tr
		x.Descr["scenario"] = res.Scenario
		if s.Abnormal == "" {
			var evs []string
			for _, e := range s.Events() {
				evs = append(evs, e.String())
			}
			x.Descr["events"] = evs
		}
		res.Scenario = x.Descr
	} else if res.OK {
		res.Scenario = nil
	}
	// log hash: everything that must be identical between two executions of the same tape
	var sb strings.Builder
	fmt.Fprintf(&sb, "%d|%d|%d|%s|%v|", res.ScenHash, res.TraceHash, res.Steps, res.Abnormal, res.OK)
	for _, v := range s.Viol {
		sb.WriteString(v.Class + ":" + v.Detail + "|")
	}
	if s.Abnormal == "" {
		for _, e := range s.Events() {
			sb.WriteString(e.String() + "|")
		}
	}
	keys := make([]string, 0, len(res.Counts))
	for k := range res.Counts {
		keys = append(keys, k)
	}
	sort.Strings(keys)
	for _, k := range keys {
		fmt.Fprintf(&sb, "%s=%d|", k, res.Counts[k])
	}
	res.LogHash = sim.HashString(sb.String())
	return res, s.Abnormal == "" && !schedPanic && !s.Uncontrolled
}

func kindName(k uint8) string {
	switch k {
	case sim.KYield:
		return "yield"
	case sim.KLockYield:
		return "lock?"
	case sim.KBlocked:
		return "BLOCKED"
	case sim.KWouldBlock:
		return "WOULD-BLOCK"
	case sim.KAcquired:
		return "acquired"
	case sim.KRelease:
		return "release"
	case sim.KDone:
		return "done"
	case sim.KCheckpoint:
		return "checkpoint"
	case sim.KNote:
		return "note"
	}
	return "?"
}

func trimStack(s string) string {
	lines := strings.Split(s, "\n")
	var keep []string
	for _, l := range lines {
		if strings.Contains(l, "go-restful") || strings.Contains(l, "restsim/props") {
			keep = append(keep, strings.TrimSpace(l))
		}
		if len(keep) >= 12 {
			break
		}
	}
	return strings.Join(keep, " <- ")
}
