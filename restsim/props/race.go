package props

import (
	"regexp"
	"strings"
)

var raceFrame = regexp.MustCompile(`(?m)^  (\S+)\(\)\n      (\S+):(\d+)`)

// ClassifyRace turns a race-detector report into a violation class and a one-line detail.
// A report whose accessing stacks contain no library frame near the top is a race inside the
// harness (infrastructure error), not a finding about the library.
func ClassifyRace(rep string) (class, detail string) {
	blocks := strings.Split(rep, "\n\n")
	var tops []string
	lib := false
	for _, b := range blocks {
		if !(strings.Contains(b, " by goroutine ") || strings.Contains(b, " by main goroutine")) {
			continue
		}
		if strings.Contains(b, "created at") {
			continue
		}
		fr := raceFrame.FindAllStringSubmatch(b, 12)
		top := ""
		// the access belongs to whoever owns the first frame that is neither standard library nor runtime:
		// the library, or the harness (a harness access reached through a library hook is a harness access)
		for _, f := range fr {
			if strings.Contains(f[1], "restsim/") {
				break
			}
			if strings.Contains(f[1], "go-restful/v3.") {
				lib = true
				fn := f[1][strings.LastIndex(f[1], "/")+1:]
				file := f[2][strings.LastIndex(f[2], "/")+1:]
				top = fn + "@" + file + ":" + f[3]
				break
			}
		}
		if top == "" && len(fr) > 0 {
			top = fr[0][1]
		}
		tops = append(tops, top)
		if len(tops) == 2 {
			break
		}
	}
	detail = "race detector: " + strings.Join(tops, " <-> ")
	if !lib {
		return "infra-harness-race", detail
	}
	return "data-race", detail
}
