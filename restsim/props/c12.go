package props

import (
	"fmt"
	"strings"
	"sync"
	"time"

	"github.com/anishathalye/porcupine"
	restful "github.com/emicklei/go-restful/v3"

	"restsim/sim"
)

func init() {
	register(&PropInfo{ID: "C12", Run: runC12, UseRace: true, Level: "exploration"})
}

type c12Scen struct {
	Router     string      `json:"router"`
	Entry      string      `json:"entry"`
	Trace      bool        `json:"trace"`
	Reentrant  bool        `json:"reentrant_filter"`
	Recover    bool        `json:"recover"`
	Crowded    bool        `json:"service0_crowded"`
	Rendezvous bool        `json:"first_request_of_client0_waits_for_first_of_client1"`
	Preempt    int         `json:"preempt_permille"`
	NoTrim     bool        `json:"trim_right_slash_off,omitempty"`
	Options    bool        `json:"options_filter,omitempty"`
	Svcs       []SvcSpec   `json:"services"` // Routes = initial routes followed by pool routes
	InitR      map[int]int `json:"initial_route_count"`
	Members    []int       `json:"initial_members"`
	Admins     [][]AdminOp `json:"admin_tasks"`
	Clients    [][]Probe   `json:"client_tasks"`
	entry      int
}

type histOp struct {
	Exempt   bool
	Task     int
	Call     int64
	Ret      int64
	Admin    *AdminOp
	Probe    *Probe
	Out      string
	Finished bool
}

var c12Roots = []string{"/a", "/b", "/a/b", "/", "/c/{v}"}
var c12Plain = []string{"/static/", "/h"}
var c12Subs = []string{"/x", "/{id}", "/x/{id}", "/y", "", "/{id}/z", "/w/{rest:*}", "/p/{id}", "/q", "/r/{id}/s", "/t", "/{id}:go"}

func genC12(x *Ctx) *c12Scen {
	tp := x.Tape
	sc := &c12Scen{InitR: map[int]int{}}
	sc.Router = []string{"curly", "jsr311"}[tp.G(2)]
	sc.entry = tp.G(2)
	sc.Entry = entryName(sc.entry)
	sc.Trace = tp.Bool()
	sc.Preempt = []int{300, 100, 500, 50}[tp.G(4)]
	sc.Reentrant = tp.Chance(350)
	sc.Recover = tp.Bool()
	sc.Rendezvous = tp.Chance(200)
	rootPerm := tp.Perm(len(c12Roots))
	rid := 0
	tp.Repeat(2, 4, 500, func(i int) {
		sp := SvcSpec{ID: i, Root: c12Roots[rootPerm[i]], Dynamic: tp.G(5) != 4}
		subPerm := tp.Perm(4 * len(c12Subs)) // (path, method) pairs
		nInit := 0
		maxR, moreR := 5, 600
		crowdedSvc := false
		if i == 0 && tp.Chance(140) {
			maxR, moreR = []int{22, 22, 44}[tp.G(3)], 975 // a crowded service: more routes than any preallocated slice, batch or small-table fast path
			crowdedSvc = true
			sc.Crowded = true
			sp.Dynamic = true
		}
		tp.Repeat(1, maxR, moreR, func(k int) {
			rid++
			r := RouteSpec{ID: rid, Method: []string{"GET", "POST", "PUT", "DELETE"}[subPerm[k]%4], Path: c12Subs[subPerm[k]/4]}
			r.Cond = tp.Chance(250)
			if k == 0 || tp.G(3) != 0 { // initial route or pool route (added later by an admin task)
				if nInit == k {
					nInit++
				}
			}
			sp.Routes = append(sp.Routes, r)
		})
		if !sp.Dynamic || crowdedSvc {
			nInit = len(sp.Routes) // a crowded service starts with all its routes registered
		}
		sc.InitR[i] = nInit
		if tp.G(3) != 0 {
			sc.Members = append(sc.Members, i)
		}
		sp.Repath = tp.Chance(150)
		sc.Svcs = append(sc.Svcs, sp)
	})
	nSvc := len(sc.Svcs)
	// admin tasks own disjoint sets of services, so each knows the membership of its own
	nAdmin := tp.Range(1, 2)
	owned := make([][]int, nAdmin)
	for i := 0; i < nSvc; i++ {
		a := tp.G(nAdmin)
		owned[a] = append(owned[a], i)
	}
	maxOps := 4
	if x.Thorough() {
		maxOps = 7
	}
	for a := 0; a < nAdmin; a++ {
		var ops []AdminOp
		if len(owned[a]) == 0 {
			sc.Admins = append(sc.Admins, ops)
			continue
		}
		handled := map[int]bool{}
		member := map[int]bool{}
		for _, m := range sc.Members {
			member[m] = true
		}
		present := map[int]bool{}
		for _, sp := range sc.Svcs {
			for k, r := range sp.Routes {
				present[r.ID] = k < sc.InitR[sp.ID]
			}
		}
		tp.Repeat(1, maxOps, 650, func(int) {
			sid := owned[a][tp.G(len(owned[a]))]
			sp := sc.Svcs[sid]
			switch tp.G(9) {
			case 8: // register a plain handler (Handle shares the container lock and the mux with Add/Remove)
				if a == 0 && len(handled) < len(c12Plain) {
					pid := len(handled)
					handled[pid] = true
					kind := "handle"
					if pid%2 == 1 {
						kind = "handlef"
					}
					ops = append(ops, AdminOp{Kind: kind, Plain: pid})
				}
			case 0, 1, 4, 5: // toggle membership
				if member[sid] {
					ops = append(ops, AdminOp{Kind: "remove", Svc: sid})
					member[sid] = false
				} else {
					ops = append(ops, AdminOp{Kind: "add", Svc: sid})
					member[sid] = true
				}
			case 2, 3, 6, 7: // toggle a route (only legal while serving on a service with dynamic routes)
				// routes are owned by route id, not by service: two admin tasks may change different
				// routes of the SAME service at the same time, and neither change may be lost
				sp = sc.Svcs[tp.G(nSvc)]
				if sc.Crowded && tp.Bool() {
					sp = sc.Svcs[0]
				}
				sid = sp.ID
				if !sp.Dynamic {
					return
				}
				var mine []RouteSpec
				for _, r := range sp.Routes {
					if r.ID%nAdmin == a {
						mine = append(mine, r)
					}
				}
				if len(mine) == 0 {
					return
				}
				r := mine[tp.G(len(mine))]
				if sc.Crowded && sid == 0 && len(mine) > 3 {
					r = mine[tp.G(3)] // a route near the front: removing it shifts everything behind it
				}
				if present[r.ID] {
					ops = append(ops, AdminOp{Kind: "unroute", Svc: sid, Route: r.ID})
					present[r.ID] = false
				} else {
					ops = append(ops, AdminOp{Kind: "route", Svc: sid, Route: r.ID})
					present[r.ID] = true
				}
			}
		})
		sc.Admins = append(sc.Admins, ops)
	}
	if ops := sc.Admins[0]; len(ops) > 0 && tp.Chance(12) {
		// the long-lived server: before one of its changes the first admin task answers a few hundred
		// requests to different URLs of the service it is about to change (World.Burst; not judged)
		at := tp.G(len(ops))
		b := AdminOp{Kind: "burst", N: []int{140, 300}[tp.G(2)]}
		if nx := ops[at]; nx.Kind == "route" || nx.Kind == "unroute" || nx.Kind == "add" || nx.Kind == "remove" {
			b.Focus = nx.Svc + 1
		}
		out := append([]AdminOp{}, ops[:at]...)
		out = append(out, b)
		sc.Admins[0] = append(out, ops[at:]...)
	}
	minClients := 1
	if sc.Rendezvous {
		minClients = 2
	}
	maxReq := 3
	if x.Thorough() {
		maxReq = 5
	}
	tp.Repeat(minClients, 3, 600, func(int) {
		var ps []Probe
		tp.Repeat(1, maxReq, 600, func(int) {
			sp := sc.Svcs[tp.G(nSvc)]
			r := sp.Routes[tp.G(len(sp.Routes))]
			if sc.Crowded && tp.G(3) != 0 {
				// requests to routes far back in the crowded service, which nobody changes
				sp = sc.Svcs[0]
				r = sp.Routes[len(sp.Routes)-1-tp.G(minInt(8, len(sp.Routes)))]
			}
			p := Probe{Method: []string{r.Method, "GET", "POST", "PUT"}[tp.G(4)], Path: instantiate(FullPath(sp.Root, r.Path), tp.G(3))}
			if tp.Chance(80) {
				p.Path = "/nowhere/at/all"
			}
			if tp.Chance(120) {
				p.Path = []string{"/static/f", "/h"}[tp.G(2)]
			}
			if tp.Chance(60) && len(p.Path) > 1 {
				// a path that is not in canonical form (doubled slash, dot segment): legal on the wire; the
				// ServeMux redirects it, the routers see it as it is
				p.Path = []string{"/" + p.Path, "/." + p.Path, p.Path + "/../" + strings.TrimPrefix(p.Path, "/")}[tp.G(3)]
			}
			p.Boom = tp.Chance(70)
			ps = append(ps, p)
		})
		sc.Clients = append(sc.Clients, ps)
	})
	sc.NoTrim = tp.Chance(100)
	if tp.Chance(250) {
		// the container's OPTIONS filter, and a share of the requests asking it: it reads services and
		// routes under the same locks the admin tasks write under
		sc.Options = true
		for _, ps := range sc.Clients {
			for i := range ps {
				if tp.Chance(450) {
					ps[i].Method = "OPTIONS"
				}
			}
		}
	}
	return sc
}

func runC12(x *Ctx) {
	sc := genC12(x)
	restful.TrimRightSlashEnabled = !sc.NoTrim
	x.Res.Scenario = sc
	x.Res.ScenHash = sim.HashString(jsonStr(sc))
	s := x.Sim
	s.Preempt = sc.Preempt

	w := &World{Svcs: sc.Svcs, Router: sc.Router, Reentrant: sc.Reentrant, Recover: sc.Recover, Options: sc.Options}
	for i, pat := range c12Plain {
		w.Plains = append(w.Plains, PlainSpec{ID: i, Pattern: pat, WithFilter: i%2 == 1})
	}
	w.index()
	var done sim.Flags
	if sc.Rendezvous {
		// a long poll: the first request of client0, if it reaches a route function, waits there until the
		// first request of client1 has been answered
		w.OnRoute = func(int) {
			t := sim.Cur()
			if t.Name == "client0" && t.Req == 1 {
				t.Count("reach:request-waited-for-another-request")
				t.WaitUntil(sim.SiteRendezvous, func() bool { return done.Get(1) })
			}
		}
	}
	init := RegState{Members: append([]int{}, sc.Members...), Routes: map[int][]int{}}
	for _, sp := range sc.Svcs {
		init.Routes[sp.ID] = []int{}
		for k := 0; k < sc.InitR[sp.ID]; k++ {
			init.Routes[sp.ID] = append(init.Routes[sp.ID], sp.Routes[k].ID)
		}
	}
	w.Start(init)
	for _, op := range sc.Admins[0] {
		if op.Kind == "burst" {
			s.MaxSteps += 30 * op.N
			x.Count("reach:burst-of-distinct-urls")
		}
	}
	restful.EnableTracing(sc.Trace)

	var hists [][]histOp
	nTasks := len(sc.Admins) + len(sc.Clients)
	hists = make([][]histOp, nTasks)
	ti := 0
	for a, ops := range sc.Admins {
		ops := ops
		slot := ti
		ti++
		s.Go(fmt.Sprintf("admin%d", a), func(t *sim.Task) {
			for i := range ops {
				t.Y(sim.SiteAdminPre)
				h := histOp{Task: t.ID, Admin: &ops[i], Call: t.Stamp()}
				hists[slot] = append(hists[slot], h)
				w.Do(ops[i])
				k := len(hists[slot]) - 1
				hists[slot][k].Ret = t.Stamp()
				hists[slot][k].Finished = true
				t.Y(sim.SiteAdminPost)
			}
		})
	}
	reqID := 0
	for c, ps := range sc.Clients {
		c, ps := c, ps
		slot := ti
		ti++
		base := reqID
		reqID += len(ps)
		s.Go(fmt.Sprintf("client%d", c), func(t *sim.Task) {
			for i := range ps {
				t.Req = base + i + 1
				t.Y(sim.SiteStart)
				h := histOp{Task: t.ID, Probe: &ps[i], Call: t.Stamp()}
				hists[slot] = append(hists[slot], h)
				o := ServeProbe(w.C, sc.entry, ps[i], t, t.Req)
				k := len(hists[slot]) - 1
				hists[slot][k].Out = o.Key()
				hists[slot][k].Ret = t.Stamp()
				hists[slot][k].Finished = true
				if c == 1 && i == 0 {
					done.Set(1)
				}
			}
			if c == 1 && len(ps) == 0 {
				done.Set(1)
			}
		})
	}
	ok := s.Run()
	restful.EnableTracing(false)
	if !ok {
		return
	}
	s.MergeCounts()
	for _, t := range s.Tasks {
		if t.Escaped != nil {
			x.Violate("panic", "task %s panicked: %v (%s)", t.Name, t.Escaped, trimStack(t.EscStack))
		}
	}
	if s.Counts["blocked-probes"] > 0 {
		x.Count("reach:lock-contention-seen")
	}
	if s.Counts["forced-read-block"] > 0 {
		x.Count("reach:reader-blocked-behind-pending-writer")
	}

	// reachable registration states under every order-preserving merge of the admin tasks
	ref := NewReference(w)
	reach := map[string]RegState{}
	var walk func(pos []int, st RegState)
	seenPos := map[string]bool{}
	walk = func(pos []int, st RegState) {
		k := fmt.Sprint(pos) + st.Key()
		if seenPos[k] {
			return
		}
		seenPos[k] = true
		reach[st.Key()] = st
		for a := range sc.Admins {
			if pos[a] < len(sc.Admins[a]) {
				np := append([]int{}, pos...)
				np[a]++
				walk(np, st.Apply(sc.Admins[a][pos[a]]))
			}
		}
	}
	walk(make([]int, len(sc.Admins)), init)
	x.CountN("reachable-states", len(reach))

	var all []histOp
	for _, h := range hists {
		all = append(all, h...)
	}
	// Through ServeHTTP a request reads the registration state twice: the ServeMux decides between the
	// dispatcher and a plain handler, then the router looks at the services. The statement promises one
	// state per request for Add/Remove/Route/RemoveRoute; Handle and HandleWithFilter are exercised here
	// as an extension (same lock, same mux). A request to a plain handler's pattern that overlaps that
	// very registration may therefore combine "not yet on the mux" with a later service state: it is
	// exempt from the state-based verdicts (reachable-state and linearizability), not from the others.
	exempt := map[int]bool{}
	if sc.entry == EntryServeHTTP {
		for i, h := range all {
			if h.Probe == nil {
				continue
			}
			for _, g := range all {
				if g.Admin == nil || !strings.HasPrefix(g.Admin.Kind, "handle") || !(g.Call < h.Ret && h.Call < g.Ret) {
					continue
				}
				pat := c12Plain[g.Admin.Plain]
				if h.Probe.Path == pat || h.Probe.Path+"/" == pat || (strings.HasSuffix(pat, "/") && strings.HasPrefix(h.Probe.Path, pat)) {
					exempt[i] = true
					x.Count("relaxed:request-overlapping-the-registration-of-its-plain-handler")
				}
			}
		}
	}
	for i := range all {
		all[i].Exempt = exempt[i]
	}
	overlap := false
	sensitive := 0
	for hi, h := range all {
		if h.Probe == nil || h.Exempt {
			continue
		}
		// An OPTIONS request answered by the OPTIONS filter reads the registration in several steps (the
		// mux, the list of services, each service's routes): while an admin operation overlaps it, it is
		// judged against the reachable states only, under a class of its own (known finding F11), and
		// left out of the linearizability history.
		optOverlap := false
		if sc.Options && h.Probe.Method == "OPTIONS" {
			for _, g := range all {
				if g.Admin != nil && g.Call < h.Ret && h.Call < g.Ret {
					optOverlap = true
				}
			}
		}
		if optOverlap {
			all[hi].Exempt = true
			x.Count("relaxed:options-request-overlapping-admin-op")
			outs := map[string]bool{}
			for _, st := range reach {
				outs[ref.Outcome(st, sc.entry, *h.Probe).Key()] = true
			}
			if !outs[h.Out] {
				x.Violate("options-answer-from-no-state", "OPTIONS filter and a concurrent registration change: request OPTIONS %s via %s got %s, which no reachable registration state produces (%d states)", h.Probe.Path, sc.Entry, h.Out, len(reach))
			}
			overlap = true
			continue
		}
		outs := map[string]bool{}
		for _, st := range reach {
			outs[ref.Outcome(st, sc.entry, *h.Probe).Key()] = true
		}
		if len(outs) == 1 {
			for want := range outs {
				if want != h.Out {
					x.Violate("unchanged-route-disturbed", "request %s %s is answered %s in every reachable registration state but got %s", h.Probe.Method, h.Probe.Path, want, h.Out)
				}
			}
		} else {
			sensitive++
			if !outs[h.Out] {
				x.Violate("answer-from-no-state", "request %s %s got %s, which no reachable registration state produces (%d states)", h.Probe.Method, h.Probe.Path, h.Out, len(reach))
			}
		}
		for _, g := range all {
			if g.Admin != nil && g.Call < h.Ret && h.Call < g.Ret {
				overlap = true
			}
		}
	}
	if overlap {
		x.Count("reach:request-overlapping-admin-op")
	}
	if sensitive > 0 {
		x.Count("reach:request-sensitive-to-state")
	}
	x.Res.Nontrivial = overlap || s.Counts["blocked-probes"] > 0

	// linearizability against the registration model
	var mu sync.Mutex
	states := map[string]RegState{init.Key(): init}
	model := porcupine.Model{
		Init: func() interface{} { return init.Key() },
		Step: func(state, input, output interface{}) (bool, interface{}) {
			mu.Lock()
			defer mu.Unlock()
			st := states[state.(string)]
			h := input.(histOp)
			if h.Admin != nil {
				ns := st.Apply(*h.Admin)
				states[ns.Key()] = ns
				return true, ns.Key()
			}
			if h.Exempt {
				return true, state
			}
			return ref.Outcome(st, sc.entry, *h.Probe).Key() == output.(string), state
		},
		DescribeOperation: func(input, output interface{}) string {
			h := input.(histOp)
			if h.Admin != nil {
				return h.Admin.String()
			}
			return h.Probe.Method + " " + h.Probe.Path + " -> " + output.(string)
		},
	}
	var ops []porcupine.Operation
	for _, h := range all {
		ops = append(ops, porcupine.Operation{ClientId: h.Task, Input: h, Call: h.Call, Output: h.Out, Return: h.Ret})
	}
	timeout := 10 * time.Second
	if x.Thorough() {
		timeout = 30 * time.Second
	}
	switch porcupine.CheckOperationsTimeout(model, ops, timeout) {
	case porcupine.Ok:
		x.Count("porcupine-ok")
	case porcupine.Illegal:
		x.Count("porcupine-illegal")
		var lines []string
		for _, h := range all {
			d := ""
			if h.Admin != nil {
				d = h.Admin.String()
			} else {
				d = h.Probe.Method + " " + h.Probe.Path + " -> " + h.Out
			}
			lines = append(lines, fmt.Sprintf("[%d,%d] t%d %s", h.Call, h.Ret, h.Task, d))
		}
		x.Violate("not-linearizable", "the history has no linearization against the registration model (every request must be answered according to a state that existed during it): %v", lines)
	case porcupine.Unknown:
		x.Count("porcupine-unknown")
	}
	x.CountN("reference-containers-built", ref.Built)
}
