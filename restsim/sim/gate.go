package sim

import (
	"encoding/binary"
	"syscall"
	"unsafe"
)

// Hand-off between the scheduler and the tasks uses raw pipe syscalls only. Channels, mutexes,
// sync/atomic and syscall.Read/Write all carry race-detector annotations that would create a
// happens-before edge at every task switch and silence the detector on the schedules we choose;
// syscall.Syscall(SYS_READ/SYS_WRITE) carries none (DESIGN.md §2.1).

const msgSize = 40
const wakeSize = 16

// Message kinds (task -> scheduler).
const (
	KYield      = 1  // plain schedule point
	KLockYield  = 2  // schedule point before a lock probe; A=lock address, B=1 for write
	KBlocked    = 3  // lock probe failed (or was forced to fail); A=lock address, B=1 for write
	KWouldBlock = 4  // a blocking channel operation would block now; abnormal end
	KAcquired   = 5  // provider handed out an object; A=object kind, B=pointer
	KRelease    = 6  // framework releases an object; A=object kind, B=pointer
	KDone       = 7  // task function returned; Flag=1 if a panic escaped it
	KCheckpoint = 8  // request finished: task must hold no pooled object
	KStall      = 9  // written by the watchdog
	KNote       = 10 // A,B free-form numbers for step-local oracles
)

// Wake commands (scheduler -> task).
const (
	CmdGo         = 0
	CmdForceBlock = 1 // treat the lock probe as failed: a writer is pending on that lock
)

type Site uint32

type Msg struct {
	Task       uint16
	Kind       uint8
	Flag       uint8
	Site       Site
	A, B, C, D uint64
}

func (m *Msg) encode(b *[msgSize]byte) {
	binary.LittleEndian.PutUint16(b[0:], m.Task)
	b[2] = m.Kind
	b[3] = m.Flag
	binary.LittleEndian.PutUint32(b[4:], uint32(m.Site))
	binary.LittleEndian.PutUint64(b[8:], m.A)
	binary.LittleEndian.PutUint64(b[16:], m.B)
	binary.LittleEndian.PutUint64(b[24:], m.C)
	binary.LittleEndian.PutUint64(b[32:], m.D)
}

func (m *Msg) decode(b *[msgSize]byte) {
	m.Task = binary.LittleEndian.Uint16(b[0:])
	m.Kind = b[2]
	m.Flag = b[3]
	m.Site = Site(binary.LittleEndian.Uint32(b[4:]))
	m.A = binary.LittleEndian.Uint64(b[8:])
	m.B = binary.LittleEndian.Uint64(b[16:])
	m.C = binary.LittleEndian.Uint64(b[24:])
	m.D = binary.LittleEndian.Uint64(b[32:])
}

func rawRead(fd int, p []byte) {
	for len(p) > 0 {
		n, _, e := syscall.Syscall(syscall.SYS_READ, uintptr(fd), uintptr(unsafe.Pointer(&p[0])), uintptr(len(p)))
		if e == syscall.EINTR || e == syscall.EAGAIN {
			continue
		}
		if e != 0 {
			panic("sim: pipe read: " + e.Error())
		}
		if n == 0 {
			panic("sim: pipe closed")
		}
		p = p[n:]
	}
}

func rawWrite(fd int, p []byte) {
	for len(p) > 0 {
		n, _, e := syscall.Syscall(syscall.SYS_WRITE, uintptr(fd), uintptr(unsafe.Pointer(&p[0])), uintptr(len(p)))
		if e == syscall.EINTR || e == syscall.EAGAIN {
			continue
		}
		if e != 0 {
			panic("sim: pipe write: " + e.Error())
		}
		p = p[n:]
	}
}

func newPipe() (r, w int) {
	var fds [2]int
	if err := syscall.Pipe2(fds[:], syscall.O_CLOEXEC); err != nil {
		panic("sim: pipe2: " + err.Error())
	}
	return fds[0], fds[1]
}

// The one scalar shared between tasks: which task is running. Hooks without a request
// argument need it. It is read and written only here; //go:norace functions are neither
// instrumented nor inlined under -race, so it adds no happens-before edge.
var curTask *Task

//go:norace
func setCur(t *Task) { curTask = t }

// Cur returns the running task, or nil on the scheduler goroutine between runs.
//
//go:norace
func Cur() *Task { return curTask }

// Flags is a small set of booleans shared between tasks for rendezvous conditions; accessed only
// through //go:norace functions so that the harness adds no happens-before edge.
type Flags [64]bool

//go:norace
func (f *Flags) Set(i int) { f[i%64] = true }

//go:norace
func (f *Flags) Get(i int) bool { return f[i%64] }
