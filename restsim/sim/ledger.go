package sim

import (
	"compress/gzip"
	"compress/zlib"
	"fmt"
	"io"
	"sync"
	"unsafe"

	restful "github.com/emicklei/go-restful/v3"
)

// Object kinds in the ledger.
const (
	ObjGzipWriter = 1
	ObjGzipReader = 2
	ObjZlibWriter = 3
)

func objName(k int) string {
	switch k {
	case ObjGzipWriter:
		return "gzip.Writer"
	case ObjGzipReader:
		return "gzip.Reader"
	case ObjZlibWriter:
		return "zlib.Writer"
	}
	return "?"
}

type heldInfo struct {
	kind  int
	owner int // task id, -1 for the scheduler goroutine
	step  uint64
}

// Ledger is the scheduler-side record of which pooled objects are handed out. It is touched by
// the scheduler goroutine only; tasks report acquisitions and releases by value in messages.
type Ledger struct {
	sim      *Sim
	held     map[uint64]heldInfo
	Acquires int
	Releases int
	MaxHeld  int
}

func newLedger(s *Sim) *Ledger { return &Ledger{sim: s, held: map[uint64]heldInfo{}} }

func (l *Ledger) acquired(t *Task, kind int, ptr uint64) {
	l.Acquires++
	owner := -1
	if t != nil {
		owner = t.ID
	}
	if h, ok := l.held[ptr]; ok {
		l.sim.Violate("handed-out-while-held", "provider handed out a %s that task %d still holds since step %d", objName(kind), h.owner, h.step)
	}
	l.held[ptr] = heldInfo{kind: kind, owner: owner, step: l.sim.Step}
	if len(l.held) > l.MaxHeld {
		l.MaxHeld = len(l.held)
	}
}

func (l *Ledger) released(t *Task, kind int, ptr uint64) {
	l.Releases++
	h, ok := l.held[ptr]
	if !ok {
		l.sim.Violate("release-not-held", "framework released a %s that is not held (double release or never acquired)", objName(kind))
		return
	}
	if h.kind != kind {
		l.sim.Violate("release-wrong-kind", "object acquired as %s released as %s", objName(h.kind), objName(kind))
	}
	delete(l.held, ptr)
}

// checkpoint: a request (or task) ended; it must not hold anything.
func (l *Ledger) checkpoint(t *Task) {
	n := 0
	kind := 0
	for _, h := range l.held {
		if h.owner == t.ID {
			n++
			kind = h.kind
		}
	}
	if n > 0 {
		l.sim.Violate("leaked", "task %s finished a request still holding %d pooled object(s), e.g. a %s: acquired and never released", t.Name, n, objName(kind))
		for p, h := range l.held {
			if h.owner == t.ID {
				delete(l.held, p)
			}
		}
	}
}

func (l *Ledger) finish() {
	if len(l.held) > 0 {
		l.sim.Violate("leaked", "%d pooled object(s) still held at the end of the run", len(l.held))
	}
}

// ---- tripwires -------------------------------------------------------------------------

// A released compressor is Reset onto a tripwire before it goes back to the real provider: the
// provider contract obliges the next user to Reset it anyway, so any I/O that reaches the
// tripwire is a use after release (or a use without Reset).
type tripWriter struct{ kind int }

func (w *tripWriter) Write(p []byte) (int, error) {
	if t := Cur(); t != nil {
		t.Ev("use-after-release", objName(w.kind), len(p))
	}
	return len(p), nil
}

// Valid header of an empty gzip stream: what gzip.Reader.Reset consumes immediately.
var emptyGzip = func() []byte {
	var buf writerBuf
	zw := gzip.NewWriter(&buf)
	zw.Close()
	return buf.b
}()

type writerBuf struct{ b []byte }

func (w *writerBuf) Write(p []byte) (int, error) { w.b = append(w.b, p...); return len(p), nil }

type tripReader struct {
	off   int
	armed bool
}

//go:norace
func (r *tripReader) arm() { r.armed = true }

//go:norace
func (r *tripReader) isArmed() bool { return r.armed }

func (r *tripReader) Read(p []byte) (int, error) {
	if r.isArmed() {
		if t := Cur(); t != nil {
			t.Ev("use-after-release", objName(ObjGzipReader), len(p))
		}
		return 0, io.ErrUnexpectedEOF
	}
	if r.off >= len(emptyGzip) {
		return 0, io.EOF
	}
	n := copy(p, emptyGzip[r.off:])
	r.off += n
	return n, nil
}

// ---- instrumenting provider --------------------------------------------------------------

// LedgerProvider wraps a real CompressorProvider. Every call is a schedule point and is reported
// to the scheduler's ledger.
type LedgerProvider struct {
	Inner restful.CompressorProvider
	Sim   *Sim
}

func ptrOf(p unsafe.Pointer) uint64 { return uint64(uintptr(p)) }

func (l *LedgerProvider) acq(kind int, get func() unsafe.Pointer) unsafe.Pointer {
	t := Cur()
	if t == nil {
		p := get()
		l.Sim.Ledger.acquired(nil, kind, ptrOf(p))
		return p
	}
	if t.depth > 0 || t.NoYield > 0 {
		// nested use by the provider itself (newGzipReader borrows a writer): no schedule point, but
		// the same pairing rule, kept in a task-private list
		p := get()
		t.nested = append(t.nested, ptrOf(p))
		return p
	}
	t.Yield(SiteAcquire, KYield, uint64(kind), 0)
	t.depth++
	p := get()
	t.depth--
	t.Yield(SiteAcquired, KAcquired, uint64(kind), ptrOf(p))
	return p
}

func (l *LedgerProvider) rel(kind int, ptr unsafe.Pointer, reset func(), put func()) {
	t := Cur()
	if t == nil {
		l.Sim.Ledger.released(nil, kind, ptrOf(ptr))
		reset()
		put()
		return
	}
	if t.depth > 0 || t.NoYield > 0 {
		found := false
		for i, q := range t.nested {
			if q == ptrOf(ptr) {
				t.nested = append(t.nested[:i], t.nested[i+1:]...)
				found = true
				break
			}
		}
		if !found {
			t.Ev("nested-release-not-held", objName(kind), 0)
		}
		reset() // the tripwire: whatever the library still does with the object afterwards is recorded
		put()
		return
	}
	t.Yield(SiteRelease, KRelease, uint64(kind), ptrOf(ptr))
	reset()
	t.depth++
	put()
	t.depth--
}

func (l *LedgerProvider) AcquireGzipWriter() *gzip.Writer {
	return (*gzip.Writer)(l.acq(ObjGzipWriter, func() unsafe.Pointer { return unsafe.Pointer(l.Inner.AcquireGzipWriter()) }))
}

func (l *LedgerProvider) ReleaseGzipWriter(w *gzip.Writer) {
	l.rel(ObjGzipWriter, unsafe.Pointer(w), func() { w.Reset(&tripWriter{ObjGzipWriter}) }, func() { l.Inner.ReleaseGzipWriter(w) })
}

func (l *LedgerProvider) AcquireGzipReader() *gzip.Reader {
	return (*gzip.Reader)(l.acq(ObjGzipReader, func() unsafe.Pointer { return unsafe.Pointer(l.Inner.AcquireGzipReader()) }))
}

func (l *LedgerProvider) ReleaseGzipReader(r *gzip.Reader) {
	l.rel(ObjGzipReader, unsafe.Pointer(r), func() {
		tr := &tripReader{}
		r.Reset(tr)
		tr.arm()
	}, func() { l.Inner.ReleaseGzipReader(r) })
}

func (l *LedgerProvider) AcquireZlibWriter() *zlib.Writer {
	return (*zlib.Writer)(l.acq(ObjZlibWriter, func() unsafe.Pointer { return unsafe.Pointer(l.Inner.AcquireZlibWriter()) }))
}

func (l *LedgerProvider) ReleaseZlibWriter(w *zlib.Writer) {
	l.rel(ObjZlibWriter, unsafe.Pointer(w), func() { w.Reset(&tripWriter{ObjZlibWriter}) }, func() { l.Inner.ReleaseZlibWriter(w) })
}

// ---- a deterministic custom provider -------------------------------------------------------

// LIFOProvider is a "custom provider" in the sense of the property: a thread-safe unbounded
// stack per object kind. Unlike sync.Pool, which object Acquire returns is a function of the
// history alone, so reuse-dependent verdicts are replayable.
type LIFOProvider struct {
	fresh int
	mu sync.Mutex
	gw []*gzip.Writer
	gr []*gzip.Reader
	zw []*zlib.Writer
}

func NewLIFOProvider() *LIFOProvider { return &LIFOProvider{} }

func (p *LIFOProvider) AcquireGzipWriter() *gzip.Writer {
	p.mu.Lock()
	defer p.mu.Unlock()
	if n := len(p.gw); n > 0 {
		w := p.gw[n-1]
		p.gw = p.gw[:n-1]
		return w
	}
	w, _ := gzip.NewWriterLevel(io.Discard, gzip.BestSpeed)
	return w
}

func (p *LIFOProvider) ReleaseGzipWriter(w *gzip.Writer) {
	p.mu.Lock()
	p.gw = append(p.gw, w)
	p.mu.Unlock()
}

func (p *LIFOProvider) AcquireGzipReader() *gzip.Reader {
	p.mu.Lock()
	defer p.mu.Unlock()
	if n := len(p.gr); n > 0 {
		r := p.gr[n-1]
		p.gr = p.gr[:n-1]
		return r
	}
	p.fresh++
	if p.fresh%2 == 0 {
		// a never-used reader, as a sync.Pool{New: func() interface{} { return new(gzip.Reader) }} hands
		// out: legal, the framework must Reset it before it reads
		return new(gzip.Reader)
	}
	r, err := gzip.NewReader(&tripReader{})
	if err != nil {
		panic(fmt.Sprint("LIFOProvider: ", err))
	}
	return r
}

func (p *LIFOProvider) ReleaseGzipReader(r *gzip.Reader) {
	p.mu.Lock()
	p.gr = append(p.gr, r)
	p.mu.Unlock()
}

func (p *LIFOProvider) AcquireZlibWriter() *zlib.Writer {
	p.mu.Lock()
	defer p.mu.Unlock()
	if n := len(p.zw); n > 0 {
		w := p.zw[n-1]
		p.zw = p.zw[:n-1]
		return w
	}
	w, _ := zlib.NewWriterLevel(io.Discard, gzip.BestSpeed)
	return w
}

func (p *LIFOProvider) ReleaseZlibWriter(w *zlib.Writer) {
	p.mu.Lock()
	p.zw = append(p.zw, w)
	p.mu.Unlock()
}

// HeldNow is the number of objects currently handed out (scheduler goroutine only).
func (l *Ledger) HeldNow() int { return len(l.held) }
