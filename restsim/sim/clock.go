package sim

import (
	"sync"
	"time"
)

// timerHandle is restful.SimTimerHandle (declared in the generated file of the scratch copy).
type timerHandle interface {
	Due() (time.Time, bool)
	Fire()
}

var timersMu sync.Mutex
var timers []timerHandle

func timersAdd(h timerHandle) {
	timersMu.Lock()
	timers = append(timers, h)
	timersMu.Unlock()
}

func timersReset() {
	timersMu.Lock()
	timers = nil
	timersMu.Unlock()
}

// timersFire fires what is due at the simulated time and reports how many timers are still pending
// and when the earliest of them is due.
func timersFire() (fired, pending int, next time.Duration) {
	timersMu.Lock()
	list := timers
	timersMu.Unlock()
	now := clockEpoch.Add(clockNow())
	var keep []timerHandle
	for _, h := range list {
		due, ok := h.Due()
		if !ok {
			continue
		}
		if !due.After(now) {
			h.Fire()
			fired++
			continue
		}
		keep = append(keep, h)
		if d := due.Sub(clockEpoch); pending == 0 || d < next {
			next = d
		}
		pending++
	}
	timersMu.Lock()
	// timers armed while firing are kept
	for _, h := range timers[len(list):] {
		keep = append(keep, h)
		pending++
	}
	timers = keep
	timersMu.Unlock()
	return
}
