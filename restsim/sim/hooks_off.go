//go:build !verif

package sim

// InstallHooks requires the hooks compiled into the library.
func InstallHooks() { panic("restsim must be built with -tags verif") }
