package sim

import (
	"encoding/binary"
	"fmt"
	"hash/fnv"
	"os"
	"runtime"
	"runtime/debug"
	"sort"
	"strconv"
	"strings"
	"sync"
	"sync/atomic"
	"syscall"
	"time"
)

// ---- sites ---------------------------------------------------------------------------

var siteNames = []string{"?"}
var siteByName = map[string]Site{}

// RegSite registers a yield site name. Only called from package initialisers, so the tables
// are read-only while tasks run.
func RegSite(name string) Site {
	if s, ok := siteByName[name]; ok {
		return s
	}
	siteNames = append(siteNames, name)
	s := Site(len(siteNames) - 1)
	siteByName[name] = s
	return s
}

func (s Site) String() string {
	if int(s) < len(siteNames) {
		return siteNames[s]
	}
	return "?"
}

var (
	SiteStart      = RegSite("task.start")
	SiteEnd        = RegSite("task.end")
	SiteCheckpoint = RegSite("task.checkpoint")
	SiteFilterPre  = RegSite("filter.pre")
	SiteFilterPost = RegSite("filter.post")
	SiteHandler    = RegSite("handler")
	SiteCond       = RegSite("route.If")
	SiteTrace      = RegSite("trace.logger")
	SiteRecover    = RegSite("recover.handler")
	SiteSvcErr     = RegSite("serviceerror.handler")
	SiteWHeader    = RegSite("writer.WriteHeader")
	SiteWWrite     = RegSite("writer.Write")
	SiteWFlush     = RegSite("writer.Flush")
	SiteSleep      = RegSite("time.Sleep")
	SiteWHijack    = RegSite("writer.Hijack")
	SiteConnWrite  = RegSite("conn.Write")
	SiteBRead      = RegSite("body.Read")
	SiteBClose     = RegSite("body.Close")
	SiteAcquire    = RegSite("provider.Acquire")
	SiteAcquired   = RegSite("provider.Acquired")
	SiteRelease    = RegSite("provider.Release")
	SiteAdminPre   = RegSite("admin.pre")
	SiteAdminPost  = RegSite("admin.post")
	SiteAccessor   = RegSite("accessor")
	SiteDomainFunc = RegSite("cors.AllowedDomainFunc")
	SiteMiddleware = RegSite("middleware")
	SiteUnknown    = RegSite("repo.unknown")
	SiteRendezvous = RegSite("handler.waits-for-other-request")
)

// ---- events (task-private logs) ------------------------------------------------------

// Event is one record of a task-private log. (Step,Sub) totally orders all events of a run.
type Event struct {
	Step uint64
	Sub  int
	Task int
	Req  int
	Kind string
	S    string
	N    int
}

func (e Event) Stamp() int64 { return int64(e.Step)*4096 + int64(e.Sub) }

func (e Event) String() string {
	return fmt.Sprintf("%d.%d t%d r%d %s %s %d", e.Step, e.Sub, e.Task, e.Req, e.Kind, e.S, e.N)
}

// ---- tasks ---------------------------------------------------------------------------

type taskState uint8

const (
	stRunnable taskState = iota
	stBlocked
	stDone
)

type Task struct {
	gid  uint64 // id of the goroutine running the task (see Yield)
	ID   int
	Name string
	Sim  *Sim
	fn   func(*Task)

	wakeR, wakeW int

	// private to the task goroutine until the run is joined
	Log      []Event
	step     uint64
	sub      int
	depth    int      // provider-call nesting
	nested   []uint64 // objects the provider borrowed from itself during a call (task-private ledger)
	NoYield  int      // >0: hooks and harness yields are suppressed
	Req      int      // current request id, for events written by callbacks
	Escaped  interface{}
	EscStack string
	Counts   map[string]int
	Local    interface{} // property-specific per-task data

	// scheduler-only
	state    taskState
	lastKind uint8
	lockAddr uint64
	lockW    bool
}

func (t *Task) send(m Msg) {
	m.Task = uint16(t.ID)
	var b [msgSize]byte
	m.encode(&b)
	rawWrite(t.Sim.repW, b[:])
}

func (t *Task) park() uint64 {
	var b [wakeSize]byte
	rawRead(t.wakeR, b[:])
	setCur(t)
	t.step = binary.LittleEndian.Uint64(b[0:])
	t.sub = 0
	return binary.LittleEndian.Uint64(b[8:])
}

// Yield reports to the scheduler and parks until scheduled again. Returns the wake command.
//
// Only the task's own goroutine may yield. A goroutine the library itself started (a changed tree may
// do that) reaches the same hooks and callbacks while "its" task is the current one; it is outside the
// scheduler's control, runs freely, and its yields are no-ops that are merely counted: the run is then
// flagged as not reproducible and the process is not reused.
func (t *Task) Yield(site Site, kind uint8, a, b uint64) uint64 {
	if (MayFork || UsesClock) && taskGID(t) != goid() {
		foreignYields.Add(1)
		if kind == KBlocked || kind == KWouldBlock {
			runtime.Gosched() // a wait loop of a free-running goroutine: let the others move
			time.Sleep(50 * time.Microsecond)
		}
		return CmdGo
	}
	t.send(Msg{Kind: kind, Site: site, A: a, B: b})
	return t.park()
}

// The simulated clock (only read by trees whose time.Now / Since / Until / Sleep calls were rewritten by
// the instrumentation pass): 10 microseconds per step, whatever time.Sleep adds, and - when the tree
// uses the clock at all - jumps drawn from the schedule stream (a millisecond to a day and more).
var clockEpoch = time.Date(2030, 1, 1, 0, 0, 0, 0, time.UTC)
var clockOffset time.Duration

// UsesClock is set by the worker when the instrumented tree reads the clock.
var UsesClock bool

// MayFork is set by the worker when the instrumented tree contains go statements (timers fork too):
// only then is the goroutine id checked at every yield (2 microseconds each).
var MayFork bool

//go:norace
func clockNow() time.Duration { return clockOffset }

//go:norace
func clockAdvance(d time.Duration) {
	if d > 0 {
		clockOffset += d
	}
}

//go:norace
func clockReset() { clockOffset = 0 }

// Own returns the current task if the caller runs on that task's goroutine, nil otherwise (harness
// callbacks reached from a goroutine the library started must not touch task state).
func Own() *Task {
	t := Cur()
	if t == nil {
		return nil
	}
	if (MayFork || UsesClock) && taskGID(t) != goid() {
		foreignYields.Add(1)
		return nil
	}
	return t
}

// foreignYields counts schedule points reached by goroutines that are no task (see Yield).
var foreignYields atomic.Int64

//go:norace
func taskGID(t *Task) uint64 { return t.gid }

//go:norace
func setTaskGID(t *Task, id uint64) { t.gid = id }

// goid parses the current goroutine's id from its stack header ("goroutine 123 [").
func goid() uint64 {
	var buf [40]byte
	n := runtime.Stack(buf[:], false)
	var id uint64
	for i := 10; i < n; i++ {
		c := buf[i]
		if c < '0' || c > '9' {
			break
		}
		id = id*10 + uint64(c-'0')
	}
	return id
}

// Y is a plain schedule point.
func (t *Task) Y(site Site) {
	if t.NoYield > 0 {
		return
	}
	t.Yield(site, KYield, 0, 0)
}

// WaitUntil parks the task until cond holds. Like a failed lock probe it counts as "blocked": if
// every unfinished task is blocked and a full round of re-probing changes nothing, it is a deadlock.
// cond must read state shared with other tasks only through //go:norace accessors.
func (t *Task) WaitUntil(site Site, cond func() bool) {
	for !cond() {
		t.Yield(site, KBlocked, 0, 0)
	}
	t.Yield(site, KYield, 0, 0)
}

// Ev appends to the task-private log.
func (t *Task) Ev(kind, s string, n int) {
	t.sub++
	t.Log = append(t.Log, Event{Step: t.step, Sub: t.sub, Task: t.ID, Req: t.Req, Kind: kind, S: s, N: n})
}

// Stamp returns the current (step,sub) stamp and advances sub.
func (t *Task) Stamp() int64 {
	t.sub++
	return int64(t.step)*4096 + int64(t.sub)
}

func (t *Task) Count(k string) {
	if t.Counts == nil {
		t.Counts = map[string]int{}
	}
	t.Counts[k]++
}

func (t *Task) main() {
	defer t.Sim.wg.Done()
	setTaskGID(t, goid())
	t.park()
	defer func() {
		var flag uint8
		if r := recover(); r != nil {
			t.Escaped = r
			t.EscStack = string(debug.Stack())
			flag = 1
		}
		t.send(Msg{Kind: KDone, Site: SiteEnd, Flag: flag})
	}()
	t.fn(t)
}

// ---- scheduler -----------------------------------------------------------------------

type TraceEntry struct {
	Step uint64
	Task int
	Kind uint8
	Site Site
}

type Violation struct {
	Class  string // stable class used for minimisation and known findings, e.g. "would-block"
	Detail string
}

type Sim struct {
	Tape     *Tape
	Tasks    []*Task
	Preempt  int // permille: probability to switch away from a runnable task at a yield
	MaxSteps int

	repR, repW int
	wg         sync.WaitGroup

	Step      uint64
	Trace     []TraceEntry
	traceHash uint64
	KeepTrace bool
	Counts    map[string]int
	Viol      []Violation
	Abnormal  string // non-empty: the run could not be completed (deadlock, would-block, stall, step-cap)
	StallDump string

	// PCT: a share of the runs is scheduled by priorities with a few change points (Burckhardt et al.,
	// "A Randomized Scheduler with Probabilistic Guarantees of Finding Bugs") instead of the random walk:
	// always the highest-priority task that can run; at a change point the running task drops to the
	// lowest priority. Finds orderings that need one task to stay ahead for long stretches.
	Uncontrolled bool // goroutines that are no task reached schedule points: the run is not reproducible
	PCT          bool
	NoPCT        bool // set by a workload that must not use it
	PCTLen       int  // range of the change points, in steps
	pctPrio      map[int]int
	pctAt        []uint64
	pctLow       int

	pendingW map[uint64]map[int]bool
	Ledger   *Ledger
	OnMsg    func(s *Sim, t *Task, m Msg)

	wdMu       sync.Mutex
	Stall      time.Duration // longest time one step may take before the watchdog calls it a stall (0: StallTimeout); a workload with very large inputs raises it
	wdDeadline time.Time
	wdStop     chan struct{}
}

func NewSim(tape *Tape) *Sim {
	clockReset()
	timersReset()
	s := &Sim{Tape: tape, Preempt: 100, MaxSteps: 20000, PCTLen: 150, Counts: map[string]int{}, pendingW: map[uint64]map[int]bool{}}
	s.Ledger = newLedger(s)
	s.traceHash = 1469598103934665603
	return s
}

// Go registers a task; tasks start parked and run only when scheduled.
func (s *Sim) Go(name string, fn func(*Task)) *Task {
	t := &Task{ID: len(s.Tasks), Name: name, Sim: s, fn: fn}
	s.Tasks = append(s.Tasks, t)
	return t
}

func (s *Sim) Violate(class, format string, a ...interface{}) {
	s.Viol = append(s.Viol, Violation{Class: class, Detail: fmt.Sprintf(format, a...)})
}

func (s *Sim) wake(t *Task, cmd uint64) {
	var b [wakeSize]byte
	binary.LittleEndian.PutUint64(b[0:], s.Step)
	binary.LittleEndian.PutUint64(b[8:], cmd)
	rawWrite(t.wakeW, b[:])
}

// StallTimeout is the real-time watchdog: no scheduler message for this long means the running
// task is stuck somewhere no hook covers.
var StallTimeout = 8 * time.Second

func init() {
	if v := os.Getenv("VERIF_STALL_MS"); v != "" {
		var ms int
		fmt.Sscanf(v, "%d", &ms)
		if ms > 0 {
			StallTimeout = time.Duration(ms) * time.Millisecond
		}
	}
}

func (s *Sim) watchdog() {
	tick := time.NewTicker(StallTimeout / 8)
	defer tick.Stop()
	for {
		select {
		case <-s.wdStop:
			return
		case now := <-tick.C:
			s.wdMu.Lock()
			d := s.wdDeadline
			s.wdMu.Unlock()
			if !d.IsZero() && now.After(d) {
				var b [msgSize]byte
				m := Msg{Task: 0xffff, Kind: KStall}
				m.encode(&b)
				rawWrite(s.repW, b[:])
				return
			}
		}
	}
}

func (s *Sim) recv() Msg {
	s.wdMu.Lock()
	st := s.Stall
	if st == 0 {
		st = StallTimeout
	}
	s.wdDeadline = time.Now().Add(st)
	s.wdMu.Unlock()
	var b [msgSize]byte
	rawRead(s.repR, b[:])
	s.wdMu.Lock()
	s.wdDeadline = time.Time{}
	s.wdMu.Unlock()
	var m Msg
	m.decode(&b)
	return m
}

func (s *Sim) unfinished() []*Task {
	var out []*Task
	for _, t := range s.Tasks {
		if t.state != stDone {
			out = append(out, t)
		}
	}
	return out
}

// pctShare is the permille of multi-task runs scheduled by priorities (experiments: VERIF_PCT).
var pctShare = func() int {
	if v, err := strconv.Atoi(os.Getenv("VERIF_PCT")); err == nil {
		return v
	}
	return 100
}()

// Run executes all registered tasks to completion under the tape. It returns false if the run
// ended abnormally (s.Abnormal says why); parked task goroutines then stay parked and the
// process must not be reused for further runs.
func (s *Sim) Run() bool {
	setCur(nil)
	s.repR, s.repW = newPipe()
	for _, t := range s.Tasks {
		t.wakeR, t.wakeW = newPipe()
	}
	s.wdStop = make(chan struct{})
	go s.watchdog()
	s.wg.Add(len(s.Tasks))
	for _, t := range s.Tasks {
		go t.main()
	}
	foreignAtStart := foreignYields.Load()
	patience := 0
	var cur *Task
	if !s.NoPCT && len(s.Tasks) > 1 && s.Tape.S(1000) < pctShare {
		s.PCT = true
		s.pctPrio = map[int]int{}
		for _, t := range s.Tasks {
			s.pctPrio[t.ID] = 1000 + s.Tape.S(1000)
		}
		// one to three change points; their range is drawn too, because runs are between 20 and 2000 steps long
		span := []int{20, 60, s.PCTLen, 500}[s.Tape.S(4)]
		for i, n := 0, 1+s.Tape.S(3); i < n; i++ {
			s.pctAt = append(s.pctAt, uint64(1+s.Tape.S(span)))
		}
		s.pctLow = 999
		s.Counts["pct-runs"]++
	}
	for {
		cands := s.unfinished()
		if len(cands) == 0 {
			break
		}
		if s.Step >= uint64(s.MaxSteps) {
			s.Abnormal = "step-cap"
			break
		}
		allBlocked := true
		for _, t := range cands {
			if t.state != stBlocked {
				allBlocked = false
				break
			}
		}
		if allBlocked {
			// systematic round: re-probe every blocked task once; if none gets through it is a deadlock
			progressed := false
			for _, t := range cands {
				if s.stepTask(t) {
					progressed = true
					cur = t
					break
				}
				if s.Abnormal != "" {
					break
				}
			}
			if s.Abnormal != "" {
				break
			}
			if !progressed && UsesClock {
				// everybody waits: the only thing that can still happen by itself is a timer
				if _, pending, next := timersFire(); pending > 0 {
					if d := next - clockNow(); d > 0 {
						clockAdvance(d)
					}
					if fired, _, _ := timersFire(); fired > 0 {
						s.Counts["timers-fired"] += fired
						time.Sleep(200 * time.Microsecond) // the fired function runs on a goroutine of its own
						continue
					}
				}
			}
			if !progressed && foreignYields.Load() > foreignAtStart && patience < 400 {
				// goroutines outside the scheduler's control exist in this run: what the tasks wait for may
				// still happen by itself
				patience++
				time.Sleep(250 * time.Microsecond)
				continue
			}
			if !progressed {
				var parts []string
				for _, t := range cands {
					mode := "R"
					if t.lockW {
						mode = "W"
					}
					if t.lockAddr == 0 {
						parts = append(parts, fmt.Sprintf("%s waiting at %s for another request to finish", t.Name, s.lastSite(t)))
						continue
					}
					parts = append(parts, fmt.Sprintf("%s blocked on %sLock at %s", t.Name, mode, s.lastSite(t)))
				}
				s.Abnormal = "deadlock"
				s.Violate("deadlock", "all unfinished tasks are blocked: %s", strings.Join(parts, "; "))
				break
			}
			continue
		}
		var pick *Task
		if s.PCT {
			for _, at := range s.pctAt {
				if at == s.Step && cur != nil {
					s.pctPrio[cur.ID] = s.pctLow
					s.pctLow--
				}
			}
			var best, bestBlocked *Task
			for _, t := range cands {
				if t.state == stBlocked {
					if bestBlocked == nil || s.pctPrio[t.ID] > s.pctPrio[bestBlocked.ID] || (s.pctPrio[t.ID] == s.pctPrio[bestBlocked.ID] && t.ID < bestBlocked.ID) {
						bestBlocked = t
					}
					continue
				}
				if best == nil || s.pctPrio[t.ID] > s.pctPrio[best.ID] || (s.pctPrio[t.ID] == s.pctPrio[best.ID] && t.ID < best.ID) {
					best = t
				}
			}
			pick = best
			// a blocked task of higher priority is probed again now and then: its lock may have been released
			if bestBlocked != nil && s.pctPrio[bestBlocked.ID] > s.pctPrio[best.ID] && bestBlocked != cur && s.Tape.SBool(300) {
				pick = bestBlocked
			}
			if cur != nil && cur.state == stRunnable && pick != cur {
				s.Counts["preemptions"]++
			}
		} else if cur != nil && cur.state == stRunnable {
			pick = cur
			if len(cands) > 1 && s.Tape.SBool(s.Preempt) {
				others := without(cands, cur)
				pick = others[s.Tape.S(len(others))]
				s.Counts["preemptions"]++
			}
		} else {
			others := cands
			if cur != nil && cur.state == stBlocked && len(cands) > 1 {
				others = without(cands, cur)
			}
			pick = others[s.Tape.S(len(others))]
		}
		s.stepTask(pick)
		cur = pick
		if s.Abnormal != "" {
			break
		}
	}
	close(s.wdStop)
	setCur(nil)
	if n := foreignYields.Load() - foreignAtStart; n > 0 {
		s.Counts["uncontrolled-goroutine-schedule-points"] += int(n)
		s.Uncontrolled = true
	}
	if s.Abnormal != "" {
		return false
	}
	s.wg.Wait()
	for _, t := range s.Tasks {
		syscall.Close(t.wakeR)
		syscall.Close(t.wakeW)
	}
	syscall.Close(s.repR)
	syscall.Close(s.repW)
	s.Ledger.finish()
	return true
}

func without(ts []*Task, x *Task) []*Task {
	out := make([]*Task, 0, len(ts))
	for _, t := range ts {
		if t != x {
			out = append(out, t)
		}
	}
	return out
}

func (s *Sim) lastSite(t *Task) Site {
	for i := len(s.Trace) - 1; i >= 0; i-- {
		if s.Trace[i].Task == t.ID {
			return s.Trace[i].Site
		}
	}
	return 0
}

// stepTask wakes t, waits for its next message and processes it. It reports whether the task
// made progress (anything but a failed lock probe).
func (s *Sim) stepTask(t *Task) bool {
	s.Step++
	clockAdvance(10 * time.Microsecond)
	if UsesClock && s.Tape.SBool(25) {
		clockAdvance([]time.Duration{time.Millisecond, time.Second, time.Minute, time.Hour, 25 * time.Hour, 40 * 24 * time.Hour}[s.Tape.S(6)])
		s.Counts["fault-clock-jump"]++
	}
	if UsesClock {
		if fired, _, _ := timersFire(); fired > 0 {
			s.Counts["timers-fired"] += fired
		}
	}
	cmd := uint64(CmdGo)
	if (t.lastKind == KLockYield || t.lastKind == KBlocked) && !t.lockW {
		// Go documents that a blocked Lock excludes new readers; a failing write probe stands for
		// a blocked Lock call, so read probes on that lock are forced to fail while it is pending.
		for id := range s.pendingW[t.lockAddr] {
			if id != t.ID {
				cmd = CmdForceBlock
				s.Counts["forced-read-block"]++
				break
			}
		}
	}
	s.wake(t, cmd)
	m := s.recv()
	if m.Kind == KStall {
		s.Abnormal = "stall"
		s.StallDump = allStacks()
		s.Counts["stall"]++
		return false
	}
	if int(m.Task) != t.ID {
		// cannot happen while yields are always the running task's; never continue on a broken protocol
		s.Abnormal = "protocol"
		s.Violate("infra-protocol", "message from task %d while task %d was scheduled", m.Task, t.ID)
		return false
	}
	s.record(t, m)
	if m.Kind != KBlocked {
		for addr, set := range s.pendingW {
			if set[t.ID] {
				delete(set, t.ID)
				if len(set) == 0 {
					delete(s.pendingW, addr)
				}
			}
		}
	}
	t.lastKind = m.Kind
	progress := true
	switch m.Kind {
	case KYield, KNote:
		t.state = stRunnable
	case KLockYield:
		t.state = stRunnable
		t.lockAddr, t.lockW = m.A, m.B == 1
	case KBlocked:
		t.state = stBlocked
		t.lockAddr, t.lockW = m.A, m.B == 1
		if t.lockW {
			if s.pendingW[m.A] == nil {
				s.pendingW[m.A] = map[int]bool{}
			}
			s.pendingW[m.A][t.ID] = true
		}
		s.Counts["blocked-probes"]++
		progress = false
	case KWouldBlock:
		s.Abnormal = "would-block"
		s.Violate("would-block", "task %s: blocking channel send at %s would block (channel full)", t.Name, m.Site)
	case KAcquired:
		t.state = stRunnable
		s.Ledger.acquired(t, int(m.A), m.B)
	case KRelease:
		t.state = stRunnable
		s.Ledger.released(t, int(m.A), m.B)
	case KCheckpoint:
		t.state = stRunnable
		s.Ledger.checkpoint(t)
	case KDone:
		t.state = stDone
		s.Ledger.checkpoint(t)
	default:
		panic(fmt.Sprintf("sim: unknown message kind %d", m.Kind))
	}
	if s.OnMsg != nil {
		s.OnMsg(s, t, m)
	}
	return progress
}

func (s *Sim) record(t *Task, m Msg) {
	if s.KeepTrace {
		s.Trace = append(s.Trace, TraceEntry{Step: s.Step, Task: t.ID, Kind: m.Kind, Site: m.Site})
	} else if m.Kind == KBlocked || m.Kind == KLockYield {
		// keep enough for deadlock messages
		s.Trace = append(s.Trace, TraceEntry{Step: s.Step, Task: t.ID, Kind: m.Kind, Site: m.Site})
		if len(s.Trace) > 64 {
			s.Trace = s.Trace[32:]
		}
	}
	h := s.traceHash
	for _, v := range []uint64{uint64(t.ID), uint64(m.Kind), uint64(m.Site)} {
		h ^= v
		h *= 1099511628211
	}
	s.traceHash = h
}

func (s *Sim) TraceHash() uint64 { return s.traceHash }

// Events returns all task logs merged in global order. Only valid after a normal Run.
func (s *Sim) Events() []Event {
	var all []Event
	for _, t := range s.Tasks {
		all = append(all, t.Log...)
	}
	sort.SliceStable(all, func(i, j int) bool { return all[i].Stamp() < all[j].Stamp() })
	return all
}

// MergeCounts adds the task-private counters. Only valid after a normal Run.
func (s *Sim) MergeCounts() {
	for _, t := range s.Tasks {
		for k, v := range t.Counts {
			s.Counts[k] += v
		}
	}
}

func allStacks() string {
	buf := make([]byte, 1<<20)
	n := runtime.Stack(buf, true)
	return string(buf[:n])
}

// StallClass inspects the goroutine dump taken at a stall and classifies where the running
// task is stuck. Only a task goroutine that is not parked in the hand-off pipe is of interest.
func StallClass(dump string) (class, where string) {
	for _, g := range strings.Split(dump, "\n\n") {
		if !strings.Contains(g, "sim.(*Task).main") {
			continue
		}
		if strings.Contains(g, "sim.rawRead") || strings.Contains(g, "sim.rawWrite") {
			continue
		}
		head := g
		if i := strings.Index(g, "\n"); i >= 0 {
			head = g[:i]
		}
		where = head
		for _, ln := range strings.Split(g, "\n") {
			if strings.Contains(ln, "go-restful/v3.") {
				where = head + " in " + strings.TrimSpace(ln)
				break
			}
		}
		switch {
		case strings.Contains(head, "chan send"), strings.Contains(head, "chan receive"), strings.Contains(head, "select"):
			return "blocked-on-channel", where
		case strings.Contains(head, "sync.") || strings.Contains(head, "semacquire"):
			return "blocked-on-unhooked-lock", where
		default:
			return "stuck-running", where
		}
	}
	return "unknown", ""
}

func hashString(s string) uint64 {
	h := fnv.New64a()
	h.Write([]byte(s))
	return h.Sum64()
}

// HashString is a stable 64-bit hash for scenario fingerprints.
func HashString(s string) uint64 { return hashString(s) }
