package sim

import (
	"bufio"
	"errors"
	"io"
	"net"
	"net/http"
	"time"
)

// ErrSim is the error injected by simulated I/O faults.
var ErrSim = errors.New("simulated I/O fault")

// Write fault modes.
const (
	WFaultNone  = 0
	WFaultFail  = 1 // from write #FailAt on: accept nothing, return ErrSim
	WFaultShort = 2 // write #FailAt accepts ShortN bytes (< len) and returns ErrSim; later writes fail
	WFaultOnce  = 3 // only write #FailAt fails (accepting ShortN bytes); the writer then works again
)

// SimWriter is the only http.ResponseWriter the library sees in a simulation. It is private to
// the task that created it.
type SimWriter struct {
	T        *Task
	H        http.Header // what the client sees: the live map until the header is sent, a frozen copy afterwards
	live     http.Header // what Header() hands out
	sentHdr  bool
	Statuses []int  // every WriteHeader call with a final status
	Interim  []int  // 1xx statuses other than 101: interim responses
	Body     []byte // accepted bytes
	Chunks   []int  // len(p) of every Write call
	Accepted []int  // accepted byte count of every Write call
	Flushes  int

	FaultMode int
	FailAt    int // index of the first faulty Write call
	ShortN    int
	Fired     int // number of Write calls that returned an injected error
	Quiet     bool

	Hijacked   bool   // the connection was taken over (SimHijackWriter): Write answers http.ErrHijacked
	ConnBytes  []byte // what the new owner wrote to the simulated connection
	ConnClosed int
	LateWrites int // Write calls after the take-over
	StrWrites  int // WriteString calls
	// BodyRule: like net/http's writer, refuse body bytes after a final status that does not allow a body
	// (1xx, 204, 304) with http.ErrBodyNotAllowed; Refused counts such Write calls
	BodyRule bool
	Refused  int
	// RefuseHijack: the writer has a Hijack method that fails (HTTP/2, a wrapping middleware, a connection
	// that is not in a state to be handed over): the handler falls back to an ordinary response
	RefuseHijack bool
}

func NewSimWriter(t *Task) *SimWriter {
	h := http.Header{}
	return &SimWriter{T: t, H: h, live: h}
}

func (w *SimWriter) Header() http.Header { return w.live }

// sendHeader: as with net/http's writer, the header goes out with the first WriteHeader, Write or
// Flush; what is set or deleted in the map afterwards never reaches the client.
func (w *SimWriter) sendHeader() {
	if !w.sentHdr {
		w.sentHdr = true
		w.H = w.live.Clone()
	}
}

// here is a schedule point of the RUNNING task. A writer reached from another request's goroutine
// (a compressor shared between two responses does that) is recorded, never followed: the yield is
// always the running task's own.
func (w *SimWriter) here(site Site) {
	t := Own()
	if t == nil {
		return
	}
	if w.T != nil && t != w.T {
		t.Ev("foreign-writer-use", site.String(), w.T.ID)
	}
	if w.T != nil && !w.Quiet {
		t.Y(site)
	}
}

func (w *SimWriter) WriteHeader(status int) {
	w.here(SiteWHeader)
	if status >= 100 && status < 200 && status != 101 {
		// an interim response (103 Early Hints ...): net/http sends it and goes on; the final header is
		// still to come and the header map stays live
		w.Interim = append(w.Interim, status)
		return
	}
	w.sendHeader()
	w.Statuses = append(w.Statuses, status)
}

func (w *SimWriter) Write(p []byte) (int, error) {
	w.here(SiteWWrite)
	if w.Hijacked {
		// net/http's contract after Hijack
		w.LateWrites++
		return 0, http.ErrHijacked
	}
	w.sendHeader()
	if st := w.Status(); w.BodyRule && len(p) > 0 && (st == 204 || st == 304 || (st >= 100 && st < 200)) {
		w.Refused++
		return 0, http.ErrBodyNotAllowed
	}
	k := len(w.Chunks)
	w.Chunks = append(w.Chunks, len(p))
	n := len(p)
	var err error
	if w.FaultMode == WFaultOnce && k != w.FailAt {
		// transient fault: not this write
	} else if w.FaultMode != WFaultNone && k >= w.FailAt {
		if (w.FaultMode == WFaultShort || w.FaultMode == WFaultOnce) && k == w.FailAt {
			n = w.ShortN
			if n > len(p) {
				n = len(p)
			}
			if n == len(p) && n > 0 {
				n--
			}
		} else {
			n = 0
		}
		err = ErrSim
		w.Fired++
	}
	w.Body = append(w.Body, p[:n]...)
	w.Accepted = append(w.Accepted, n)
	return n, err
}

// ReadFrom: net/http's response writer implements io.ReaderFrom (io.Copy uses it); here it is a loop of
// Write calls of up to 512 bytes, so every fault position exists on this path too.
func (w *SimWriter) ReadFrom(r io.Reader) (int64, error) {
	buf := make([]byte, 512)
	var total int64
	for {
		n, rerr := r.Read(buf)
		if n > 0 {
			m, werr := w.Write(buf[:n])
			total += int64(m)
			if werr != nil {
				return total, werr
			}
			if m < n {
				return total, io.ErrShortWrite
			}
		}
		if rerr == io.EOF {
			return total, nil
		}
		if rerr != nil {
			return total, rerr
		}
	}
}

// WriteString: net/http's response writer implements io.StringWriter, and so does this one; code that
// asserts for it (io.WriteString does) reaches the same write path.
func (w *SimWriter) WriteString(s string) (int, error) {
	w.StrWrites++
	return w.Write([]byte(s))
}

// Status is what a client would see: the first WriteHeader, or 200 once the exchange is over.
func (w *SimWriter) Status() int {
	if len(w.Statuses) > 0 {
		return w.Statuses[0]
	}
	return 200
}

// SimFlushWriter additionally implements http.Flusher.
type SimFlushWriter struct{ *SimWriter }

func (w SimFlushWriter) Flush() {
	w.here(SiteWFlush)
	w.sendHeader()
	w.Flushes++
}

// SimHijackWriter additionally implements http.Hijacker; the connection it hands out is simulated
// as well (writes are schedule points of the running task and are recorded, reads see EOF).
type SimHijackWriter struct{ *SimWriter }

func (w SimHijackWriter) Hijack() (net.Conn, *bufio.ReadWriter, error) {
	w.here(SiteWHijack)
	if w.RefuseHijack {
		return nil, nil, http.ErrNotSupported
	}
	if w.Hijacked {
		return nil, nil, http.ErrHijacked
	}
	w.Hijacked = true
	c := &simConn{w: w.SimWriter}
	return c, bufio.NewReadWriter(bufio.NewReader(c), bufio.NewWriter(c)), nil
}

// SimFullWriter implements both optional interfaces, like the writer of net/http's server.
type SimFullWriter struct{ *SimWriter }

func (w SimFullWriter) Flush() { SimFlushWriter{w.SimWriter}.Flush() }
func (w SimFullWriter) Hijack() (net.Conn, *bufio.ReadWriter, error) {
	return SimHijackWriter{w.SimWriter}.Hijack()
}

type simConn struct{ w *SimWriter }

type simAddr struct{}

func (simAddr) Network() string { return "sim" }
func (simAddr) String() string  { return "sim" }

func (c *simConn) Read(p []byte) (int, error) { return 0, io.EOF }
func (c *simConn) Write(p []byte) (int, error) {
	c.w.here(SiteConnWrite)
	if c.w.ConnClosed > 0 {
		return 0, net.ErrClosed
	}
	c.w.ConnBytes = append(c.w.ConnBytes, p...)
	return len(p), nil
}
func (c *simConn) Close() error                       { c.w.ConnClosed++; return nil }
func (c *simConn) LocalAddr() net.Addr                { return simAddr{} }
func (c *simConn) RemoteAddr() net.Addr               { return simAddr{} }
func (c *simConn) SetDeadline(t time.Time) error      { return nil }
func (c *simConn) SetReadDeadline(t time.Time) error  { return nil }
func (c *simConn) SetWriteDeadline(t time.Time) error { return nil }

// Body fault modes.
const (
	BFaultNone  = 0
	BFaultTrunc = 1 // clean io.EOF at byte FaultAt
	BFaultErr   = 2 // ErrSim at byte FaultAt
)

// SimBody serves prepared bytes in pre-drawn chunk sizes and injects faults at a byte offset.
// Bit flips and header damage are applied to Data before the run.
type SimBody struct {
	T       *Task
	Data    []byte
	Chunks  []int // cyclic list of maximal chunk sizes (>=1)
	ci      int
	off     int
	Mode    int
	FaultAt int
	Fired   int
	Reads   int
	Closed  int
	OnRead  func(k int) // called before the k-th Read (1-based) is served: a place to cancel the request's context
}

func (b *SimBody) Read(p []byte) (int, error) {
	if t := Own(); t != nil && b.T != nil {
		if t != b.T {
			t.Ev("foreign-body-use", "", b.T.ID)
		}
		t.Y(SiteBRead)
	}
	b.Reads++
	if b.OnRead != nil {
		b.OnRead(b.Reads)
	}
	limit := len(b.Data)
	if b.Mode != BFaultNone && b.FaultAt < limit {
		limit = b.FaultAt
	}
	if b.off >= limit {
		if b.Mode == BFaultErr {
			b.Fired++
			return 0, ErrSim
		}
		if b.Mode == BFaultTrunc && limit < len(b.Data) {
			b.Fired++
		}
		return 0, io.EOF
	}
	if len(p) == 0 {
		return 0, nil
	}
	n := len(p)
	if len(b.Chunks) > 0 {
		c := b.Chunks[b.ci%len(b.Chunks)]
		b.ci++
		if c >= 1 && c < n {
			n = c
		}
	}
	if b.off+n > limit {
		n = limit - b.off
	}
	copy(p, b.Data[b.off:b.off+n])
	b.off += n
	return n, nil
}

func (b *SimBody) Close() error {
	b.Closed++
	return nil
}
