//go:build verif

package sim

import (
	"fmt"
	"hash/fnv"
	"reflect"
	"strings"
	"sync"
	"time"
	"unsafe"

	restful "github.com/emicklei/go-restful/v3"
)

// Sites of the hooks in /repo (verif_hooks_on.go call sites). Unknown names map to SiteUnknown.
var repoSites = []string{
	"Container.Add", "Container.Remove", "Container.dispatch", "Container.serveMux", "Container.Handle",
	"Container.RegisteredWebServices", "WebService.Route", "WebService.RemoveRoute", "WebService.Routes",
	"RegisterEntityAccessor", "entityReaderWriters.accessorAt",
}

func init() {
	for _, n := range repoSites {
		RegSite(n)
	}
}

// InstallHooks points the library's SimHook at the simulator. Called once, before any task.
func InstallHooks() { restful.SimHook = repoHook }

func repoHook(kind int, site string, a interface{}, write bool) {
	switch kind {
	case 4: // time.Now in an instrumented tree
		*(a.(*time.Time)) = clockEpoch.Add(clockNow())
		return
	case 6: // a timer became pending in an instrumented tree
		if h, ok := a.(timerHandle); ok {
			timersAdd(h)
		}
		return
	case 5: // time.Sleep in an instrumented tree: the clock moves, the task yields
		clockAdvance(a.(time.Duration))
		if t := Cur(); t != nil && t.NoYield == 0 {
			t.Yield(SiteSleep, KYield, 0, 0)
		}
		return
	}
	t := Cur()
	if t == nil {
		return
	}
	if (MayFork || UsesClock) && taskGID(t) != goid() {
		// a goroutine the library started itself: not a task, nothing of the task may be touched from here
		foreignYields.Add(1)
		if kind == restful.SimKindLock || kind == 3 {
			return
		}
		return
	}
	if t.NoYield > 0 {
		return
	}
	s, ok := siteByName[site]
	if !ok {
		s = SiteUnknown
	}
	switch kind {
	case restful.SimKindYield:
		t.Yield(s, KYield, 0, 0)
	case restful.SimKindLock:
		mu := a.(*sync.RWMutex)
		addr := uint64(uintptr(unsafe.Pointer(mu)))
		var w uint64
		if write {
			w = 1
		}
		cmd := t.Yield(s, KLockYield, addr, w)
		for {
			if cmd != CmdForceBlock {
				if write {
					if mu.TryLock() {
						mu.Unlock()
						return
					}
				} else if mu.TryRLock() {
					mu.RUnlock()
					return
				}
			}
			cmd = t.Yield(s, KBlocked, addr, w)
		}
	case restful.SimKindSend:
		// write=true: a blocking send follows and a() says "channel full"; write=false: a blocking
		// receive follows and a() says "channel empty"
		wouldBlock := a.(func() bool)
		t.Yield(s, KYield, 0, 0) // the window between a capacity check and the operation
		if !wouldBlock() {
			return
		}
		if strings.HasPrefix(site, "compressor") || goid() != taskGID(t) {
			// the compressor providers promise never to block (C13): there a channel operation that
			// would block is the verdict. (A goroutine that is no task just goes on and blocks for real.)
			if goid() != taskGID(t) {
				return
			}
			t.Yield(s, KWouldBlock, 0, 0)
			panic(fmt.Sprint("sim: task resumed after would-block at ", site))
		}
		// anywhere else (a changed tree may hand work to a goroutine and wait for it) a channel operation
		// that cannot proceed is a wait like a failed lock probe: probed again when scheduled, and a
		// deadlock only if nobody can move
		addr := uint64(fnvString(site))
		for wouldBlock() {
			t.Yield(s, KBlocked, addr, 0)
		}
	case 3:
		// auto-inserted probe for a lock type the library's own hooks do not cover (sync.Mutex)
		p, ok := a.(interface {
			Identity() interface{}
			TryNow() bool
		})
		if !ok {
			return
		}
		addr := uint64(reflect.ValueOf(p.Identity()).Pointer())
		cmd := t.Yield(s, KLockYield, addr, 1)
		for {
			if cmd != CmdForceBlock && p.TryNow() {
				return
			}
			cmd = t.Yield(s, KBlocked, addr, 1)
		}
	}
}

func fnvString(x string) uint32 {
	h := fnv.New32a()
	h.Write([]byte(x))
	return h.Sum32() | 1
}
