//go:build verif

package sim

import (
	"fmt"
	"reflect"
	"sync"
	"unsafe"

	restful "github.com/emicklei/go-restful/v3"
)

// Sites of the hooks in /repo (verif_hooks_on.go call sites). Unknown names map to SiteUnknown.
var repoSites = []string{
	"Container.Add", "Container.Remove", "Container.dispatch", "Container.serveMux", "Container.Handle",
	"Container.RegisteredWebServices", "WebService.Route", "WebService.RemoveRoute", "WebService.Routes",
	"RegisterEntityAccessor", "entityReaderWriters.accessorAt",
}

func init() {
	for _, n := range repoSites {
		RegSite(n)
	}
}

// InstallHooks points the library's SimHook at the simulator. Called once, before any task.
func InstallHooks() { restful.SimHook = repoHook }

func repoHook(kind int, site string, a interface{}, write bool) {
	t := Cur()
	if t == nil || t.NoYield > 0 {
		return
	}
	s, ok := siteByName[site]
	if !ok {
		s = SiteUnknown
	}
	switch kind {
	case restful.SimKindYield:
		t.Yield(s, KYield, 0, 0)
	case restful.SimKindLock:
		mu := a.(*sync.RWMutex)
		addr := uint64(uintptr(unsafe.Pointer(mu)))
		var w uint64
		if write {
			w = 1
		}
		cmd := t.Yield(s, KLockYield, addr, w)
		for {
			if cmd != CmdForceBlock {
				if write {
					if mu.TryLock() {
						mu.Unlock()
						return
					}
				} else if mu.TryRLock() {
					mu.RUnlock()
					return
				}
			}
			cmd = t.Yield(s, KBlocked, addr, w)
		}
	case restful.SimKindSend:
		// write=true: a blocking send follows and a() says "channel full"; write=false: a blocking
		// receive follows and a() says "channel empty"
		wouldBlock := a.(func() bool)
		t.Yield(s, KYield, 0, 0) // the window between a capacity check and the operation
		if wouldBlock() {
			t.Yield(s, KWouldBlock, 0, 0)
			panic(fmt.Sprint("sim: task resumed after would-block at ", site))
		}
	case 3:
		// auto-inserted probe for a lock type the library's own hooks do not cover (sync.Mutex)
		p, ok := a.(interface {
			Identity() interface{}
			TryNow() bool
		})
		if !ok {
			return
		}
		addr := uint64(reflect.ValueOf(p.Identity()).Pointer())
		cmd := t.Yield(s, KLockYield, addr, 1)
		for {
			if cmd != CmdForceBlock && p.TryNow() {
				return
			}
			cmd = t.Yield(s, KBlocked, addr, 1)
		}
	}
}
