// Package sim is the deterministic simulator core: the choice tape, the cooperative
// scheduler with raw-pipe hand-off, simulated I/O, the compressor ledger and the hooks.
package sim

// Tape is the only source of nondeterministic choices in a simulated run.
// Two streams: G (scenario generation, drawn by the scheduler goroutine before tasks start)
// and S (scheduling decisions, drawn by the scheduler at yield points).
// In record mode every decision taken is appended; in replay mode decisions are read back,
// an exhausted stream yields 0 and 0 is by construction the simplest choice everywhere.
type Tape struct {
	state       uint64
	ReplayGen   bool     // read G decisions from InGen
	ReplaySched bool     // read S decisions from InSched
	InGen       []uint32 // decisions to replay
	InSched     []uint32
	Gen         []uint32 // decisions as taken (canonical form), always recorded
	Sched       []uint32
	gi, si      int
	Force       []uint32 // values returned by the first G draws in record mode (enumerated leading choices)
	Blocks      [][2]int // [start,end) ranges of Gen that generated one repeated element (request, operation, ...)
	open        []int
}

// SplitMix64 step.
func splitmix(x *uint64) uint64 {
	*x += 0x9e3779b97f4a7c15
	z := *x
	z = (z ^ (z >> 30)) * 0xbf58476d1ce4e5b9
	z = (z ^ (z >> 27)) * 0x94d049bb133111eb
	return z ^ (z >> 31)
}

// Mix derives a run seed from the batch seed, a property tag and a run index.
func Mix(seed uint64, tag string, index uint64) uint64 {
	x := seed ^ 0x5851f42d4c957f2d
	h := splitmix(&x)
	for _, c := range []byte(tag) {
		x ^= uint64(c) + h
		h = splitmix(&x)
	}
	x ^= index * 0x9e3779b97f4a7c15
	return splitmix(&x)
}

func NewTape(seed uint64) *Tape { return &Tape{state: seed} }

// ReplayTape replays both streams.
func ReplayTape(gen, sched []uint32) *Tape {
	return &Tape{ReplayGen: true, ReplaySched: true, InGen: gen, InSched: sched}
}

// ReplayGenTape replays the scenario but draws a fresh schedule from schedSeed (used while
// minimising: a smaller scenario needs a new search for a failing schedule).
func ReplayGenTape(gen []uint32, schedSeed uint64) *Tape {
	return &Tape{ReplayGen: true, InGen: gen, state: schedSeed}
}

func (t *Tape) draw(n int, replay bool, in []uint32, rec *[]uint32, idx *int) int {
	if n <= 1 {
		return 0
	}
	var v int
	if replay {
		var u uint32
		if *idx < len(in) {
			u = in[*idx]
		}
		v = int(u % uint32(n))
	} else if rec == &t.Gen && *idx < len(t.Force) {
		v = int(t.Force[*idx] % uint32(n))
	} else {
		v = int(splitmix(&t.state) % uint64(n))
	}
	*idx++
	*rec = append(*rec, uint32(v))
	return v
}

// G draws a generation decision in [0,n).
func (t *Tape) G(n int) int { return t.draw(n, t.ReplayGen, t.InGen, &t.Gen, &t.gi) }

// S draws a scheduling decision in [0,n).
func (t *Tape) S(n int) int { return t.draw(n, t.ReplaySched, t.InSched, &t.Sched, &t.si) }

// SBool draws a scheduling coin that is true with probability permille/1000 and records it in
// canonical form (0 = false, 999 = true), so that most of a recorded schedule is zeros.
func (t *Tape) SBool(permille int) bool {
	v := t.S(1000) >= 1000-permille
	if n := len(t.Sched); n > 0 {
		if v {
			t.Sched[n-1] = 999
		} else {
			t.Sched[n-1] = 0
		}
	}
	return v
}

// Generation helpers (all on stream G).

func (t *Tape) Bool() bool { return t.G(2) == 1 }

// Chance is true with probability permille/1000; 0 on the tape means false.
func (t *Tape) Chance(permille int) bool {
	if permille <= 0 {
		return false
	}
	return t.G(1000) >= 1000-permille
}

// Range draws in [lo,hi].
func (t *Tape) Range(lo, hi int) int {
	if hi <= lo {
		return lo
	}
	return lo + t.G(hi-lo+1)
}

func (t *Tape) PickS(xs []string) string { return xs[t.G(len(xs))] }
func (t *Tape) PickI(xs []int) int       { return xs[t.G(len(xs))] }

// Perm returns a permutation of 0..n-1; the all-zero tape gives the identity.
func (t *Tape) Perm(n int) []int {
	p := make([]int, n)
	rest := make([]int, n)
	for i := range rest {
		rest[i] = i
	}
	for i := 0; i < n; i++ {
		k := t.G(len(rest))
		p[i] = rest[k]
		rest = append(rest[:k], rest[k+1:]...)
	}
	return p
}

// Bytes produces n payload bytes that are a pure function of (tag, n): compressible text with
// a unique prefix, so every payload is attributable to one request.
func PayloadBytes(tag string, n int) []byte {
	out := make([]byte, 0, n)
	x := uint64(len(tag))*1315423911 + 7
	for _, c := range []byte(tag) {
		x = x*31 + uint64(c)
	}
	pre := []byte("<" + tag + ">")
	for len(out) < n {
		out = append(out, pre...)
		r := splitmix(&x)
		k := int(r%23) + 1
		for i := 0; i < k; i++ {
			out = append(out, byte('a'+(r>>uint(i%40))%26))
		}
		if r%5 == 0 { // an incompressible stretch now and then
			for i := 0; i < 16; i++ {
				out = append(out, byte(splitmix(&x)))
			}
		}
	}
	return out[:n]
}

// PayloadText is PayloadBytes restricted to printable ASCII (safe inside JSON and XML).
func PayloadText(tag string, n int) string {
	b := PayloadBytes(tag, n)
	for i, c := range b {
		if c < 0x20 || c > 0x7e || c == '<' || c == '>' || c == '&' || c == '"' || c == '\\' {
			b[i] = 'A' + c%26
		}
	}
	return string(b)
}

// Begin / End bracket the draws that generate one repeated element. The minimiser deletes whole
// blocks, so a request or operation disappears together with the coin that announced it.
func (t *Tape) Begin() { t.open = append(t.open, len(t.Gen)) }

func (t *Tape) End() {
	n := len(t.open)
	if n == 0 {
		return
	}
	start := t.open[n-1]
	t.open = t.open[:n-1]
	if len(t.Gen) > start {
		t.Blocks = append(t.Blocks, [2]int{start, len(t.Gen)})
	}
}

// More decides whether a repeated structure gets another element: true with probability
// permille/1000, recorded canonically (0 = stop), so the all-zero tape generates the minimum.
// Idiom:  for i := 0; i < max && (i < min || tp.More(700)); i++ { tp.Begin(); ...; tp.End() }
// with More called inside the block when the element should vanish with its coin:
//
//	for i := 0; i < max; i++ { tp.Begin(); if i >= min && !tp.More(700) { tp.End(); break }; ...; tp.End() }
func (t *Tape) More(permille int) bool {
	v := t.G(1000) >= 1000-permille
	if n := len(t.Gen); n > 0 {
		if v {
			t.Gen[n-1] = 999
		} else {
			t.Gen[n-1] = 0
		}
	}
	return v
}

// Repeat runs gen between min and max times; every iteration is one block that starts with its
// continuation coin.
func (t *Tape) Repeat(min, max, permille int, gen func(i int)) {
	for i := 0; i < max; i++ {
		t.Begin()
		if i >= min && !t.More(permille) {
			t.End()
			return
		}
		gen(i)
		t.End()
	}
}
