// simworker runs simulated executions in-process and prints one JSON line per run.
// Exit status: 0 all requested runs done; 3 the process must be replaced (abnormal run end or a
// race report, results printed up to and including that run); 2 usage or infrastructure error.
package main

import (
	"bufio"
	"encoding/json"
	"flag"
	"fmt"
	"os"
	"strings"

	"restsim/props"
	"restsim/sim"
)

type replayFile struct {
	Prop      string   `json:"property"`
	Tier      string   `json:"tier"`
	Flavour   string   `json:"flavour"`
	Gen       []uint32 `json:"gen"`
	Sched     []uint32 `json:"sched"`
	SchedSeed uint64   `json:"sched_seed,omitempty"`
}

func main() {
	prop := flag.String("prop", "", "property id")
	tier := flag.String("tier", "quick", "quick|thorough")
	seed := flag.Uint64("seed", 1, "batch seed")
	from := flag.Uint64("from", 0, "first run index")
	to := flag.Uint64("to", 1, "one past the last run index")
	replay := flag.String("replay", "", "replay file")
	keepEvery := flag.Uint64("keep-every", 0, "attach scenario and trace to every k-th run (0: failures only)")
	lean := flag.Bool("lean", false, "replay without attaching scenario and trace")
	raceLog := flag.String("racelog", "", "GORACE log_path prefix to watch")
	flag.Parse()
	if exe, err := os.Executable(); err == nil {
		if data, err := os.ReadFile(exe + ".sites"); err == nil {
			for _, n := range strings.Split(string(data), "\n") {
				if strings.HasPrefix(n, "time:") {
					sim.UsesClock = true
				} else if strings.HasPrefix(n, "go:") {
					sim.MayFork = true
				} else if n != "" {
					sim.RegSite(n)
				}
			}
		}
	}
	sim.InstallHooks()
	out := bufio.NewWriter(os.Stdout)
	defer out.Flush()
	race := raceEnabled
	var lastSize int64
	raceFile := ""
	if race && *raceLog != "" {
		raceFile = fmt.Sprintf("%s.%d", *raceLog, os.Getpid())
	}
	emit := func(r *props.Result) {
		r.Flavour = "norace"
		if race {
			r.Flavour = "race"
		}
		b, _ := json.Marshal(r)
		out.Write(b)
		out.WriteByte('\n')
		out.Flush()
	}
	checkRace := func(r *props.Result) bool {
		if raceFile == "" {
			return false
		}
		st, err := os.Stat(raceFile)
		if err != nil || st.Size() == lastSize {
			return false
		}
		data, _ := os.ReadFile(raceFile)
		rep := string(data[lastSize:])
		lastSize = st.Size()
		if r.Abnormal != "" {
			// the run ended without joining its tasks (step cap, stall, deadlock): the scheduler goroutine
			// has no happens-before edge with them, so reports naming it are artefacts of the abandoned run
			var keep []string
			for _, one := range strings.Split(rep, "==================\n") {
				if strings.Contains(one, "DATA RACE") && !strings.Contains(one, " by main goroutine") {
					keep = append(keep, one)
				}
			}
			rep = strings.Join(keep, "==================\n")
		}
		if !strings.Contains(rep, "DATA RACE") {
			return false
		}
		r.Race = rep
		cls, detail := props.ClassifyRace(rep)
		r.OK = false
		r.Violations = append([]sim.Violation{{Class: cls, Detail: detail}}, r.Violations...)
		r.Class, r.Detail = cls, detail
		return true
	}
	if *replay != "" {
		data, err := os.ReadFile(*replay)
		if err != nil {
			fmt.Fprintln(os.Stderr, err)
			os.Exit(2)
		}
		var rf replayFile
		if err := json.Unmarshal(data, &rf); err != nil {
			fmt.Fprintln(os.Stderr, "bad replay file:", err)
			os.Exit(2)
		}
		res, _ := props.Execute(props.RunSpec{Prop: rf.Prop, Tier: rf.Tier, Replay: true, Gen: rf.Gen, Sched: rf.Sched, SchedSeed: rf.SchedSeed, Race: race, Keep: !*lean})
		checkRace(res)
		emit(res)
		return
	}
	for i := *from; i < *to; i++ {
		keep := *keepEvery > 0 && i%*keepEvery == 0
		fmt.Fprintf(out, "START %d\n", i)
		out.Flush()
		res, reusable := props.Execute(props.RunSpec{Prop: *prop, Tier: *tier, Seed: *seed, Index: i, Race: race, Keep: keep})
		raced := checkRace(res)
		if res.OK && !keep {
			res.Gen, res.Sched, res.Blocks = nil, nil, nil
		}
		emit(res)
		if !reusable || raced {
			out.Flush()
			os.Exit(3)
		}
	}
}
