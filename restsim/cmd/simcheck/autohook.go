package main

import (
	"bytes"
	"fmt"
	"go/ast"
	"go/format"
	"go/parser"
	"go/token"
	"io"
	"os"
	"path/filepath"
	"strings"
)

// instrument copies the repository tree to a scratch directory and tops up the schedule points
// the simulator needs wherever the tree has none (go/ast rewriting, scratch copy only):
//
//   - every X.Lock() / X.RLock() call statement that is not directly preceded by a simLock(...) call
//     gets  simLockAuto("file:line", &X, write)  in front of it: a changed tree that locks in a new
//     place can then be scheduled (and deadlock-checked) instead of stalling the simulation;
//   - every blocking channel send statement  ch <- v  (not a select case) gets
//     simSend("file:line", func() bool { return len(ch) == cap(ch) })  in front of it, and every blocking
//     receive statement gets simRecvAuto: the window between a capacity check and the operation
//     becomes a schedule point, and an operation that would block is reported instead of hanging.
//
// On the unchanged tree this adds hooks only to the channel sends in NewBoundedCachedCompressors
// (constructor, runs on the scheduler goroutine). The files committed in /repo are not touched.
func instrument(repo string) (string, []string) {
	dst := filepath.Join(os.TempDir(), fmt.Sprintf("restsim-src-%x", hash64(repo)))
	os.RemoveAll(dst)
	if err := os.MkdirAll(dst, 0o755); err != nil {
		fatal("scratch copy: %v", err)
	}
	var inserted []string
	err := filepath.Walk(repo, func(path string, info os.FileInfo, err error) error {
		if err != nil {
			return err
		}
		rel, _ := filepath.Rel(repo, path)
		if info.IsDir() {
			if rel != "." && (strings.HasPrefix(info.Name(), ".") || info.Name() == "examples") {
				return filepath.SkipDir
			}
			return os.MkdirAll(filepath.Join(dst, rel), 0o755)
		}
		if !info.Mode().IsRegular() || strings.HasSuffix(rel, "_test.go") {
			return nil
		}
		if !(strings.HasSuffix(rel, ".go") || rel == "go.mod" || rel == "go.sum") {
			return nil
		}
		out := filepath.Join(dst, rel)
		if strings.HasSuffix(rel, ".go") && filepath.Dir(rel) == "." && !strings.HasPrefix(rel, "verif_hooks") {
			src, err := os.ReadFile(path)
			if err != nil {
				return err
			}
			res, n, err := rewriteFile(rel, src)
			if err != nil {
				// leave the file as it is; the compiler will report what is wrong with it
				return os.WriteFile(out, src, 0o644)
			}
			inserted = append(inserted, n...)
			return os.WriteFile(out, res, 0o644)
		}
		return copyFile(path, out)
	})
	if err != nil {
		fatal("scratch copy of %s: %v", repo, err)
	}
	if err := os.WriteFile(filepath.Join(dst, "verif_hooks_auto.go"), []byte(autoHookSource), 0o644); err != nil {
		fatal("%v", err)
	}
	return dst, inserted
}

func copyFile(from, to string) error {
	in, err := os.Open(from)
	if err != nil {
		return err
	}
	defer in.Close()
	out, err := os.Create(to)
	if err != nil {
		return err
	}
	defer out.Close()
	_, err = io.Copy(out, in)
	return err
}

func exprString(fset *token.FileSet, e ast.Expr) string {
	var b bytes.Buffer
	format.Node(&b, fset, e)
	return b.String()
}

func isCallTo(s ast.Stmt, names ...string) bool {
	es, ok := s.(*ast.ExprStmt)
	if !ok {
		return false
	}
	call, ok := es.X.(*ast.CallExpr)
	if !ok {
		return false
	}
	id, ok := call.Fun.(*ast.Ident)
	if !ok {
		return false
	}
	for _, n := range names {
		if id.Name == n {
			return true
		}
	}
	return false
}

func parseStmt(src string) ast.Stmt {
	e, err := parser.ParseExpr(src)
	if err != nil {
		panic(fmt.Sprintf("autohook: cannot parse %q: %v", src, err))
	}
	return &ast.ExprStmt{X: e}
}

// lockCall recognises  X.Lock()  /  X.RLock()  (also as the call of a defer-less statement).
func lockCall(s ast.Stmt) (x ast.Expr, write, ok bool) {
	es, isExpr := s.(*ast.ExprStmt)
	if !isExpr {
		return nil, false, false
	}
	call, isCall := es.X.(*ast.CallExpr)
	if !isCall || len(call.Args) != 0 {
		return nil, false, false
	}
	sel, isSel := call.Fun.(*ast.SelectorExpr)
	if !isSel {
		return nil, false, false
	}
	switch sel.Sel.Name {
	case "Lock":
		return sel.X, true, true
	case "RLock":
		return sel.X, false, true
	}
	return nil, false, false
}

// usesLockFreeSync reports whether a simple statement (not a block) calls into sync/atomic or uses
// the method names of sync.Once / sync.Map / atomic.Value (Do, LoadOrStore, CompareAndSwap, Swap,
// LoadAndDelete). Purely syntactic: an unrelated method of the same name only costs a schedule point.
func usesLockFreeSync(s ast.Stmt) bool {
	switch s.(type) {
	case *ast.ExprStmt, *ast.AssignStmt, *ast.ReturnStmt, *ast.IncDecStmt, *ast.DeferStmt:
	default:
		return false
	}
	found := false
	ast.Inspect(s, func(n ast.Node) bool {
		if _, isFunc := n.(*ast.FuncLit); isFunc {
			return false
		}
		call, ok := n.(*ast.CallExpr)
		if !ok {
			return true
		}
		sel, ok := call.Fun.(*ast.SelectorExpr)
		if !ok {
			return true
		}
		if id, ok := sel.X.(*ast.Ident); ok && id.Name == "atomic" {
			found = true
		}
		switch sel.Sel.Name {
		case "LoadOrStore", "CompareAndSwap", "LoadAndDelete", "Swap":
			found = true
		case "Load", "Store":
			// atomic.Value / atomic.Int32 / sync.Map: a Load followed by a separate Store is the classic
			// non-atomic pair (the package has no other methods of these names)
			if len(call.Args) <= 2 {
				found = true
			}
		case "Do":
			if len(call.Args) == 1 {
				found = true
			}
		}
		return true
	})
	return found
}

// addressable: &X is valid Go for these forms (a call result is not).
func addressable(e ast.Expr) bool {
	switch t := e.(type) {
	case *ast.Ident:
		return true
	case *ast.SelectorExpr:
		return addressable(t.X) || isCall(t.X)
	case *ast.IndexExpr:
		return true
	case *ast.StarExpr:
		return true
	case *ast.ParenExpr:
		return addressable(t.X)
	}
	return false
}

func isCall(e ast.Expr) bool {
	_, ok := e.(*ast.CallExpr)
	return ok
}

func recvExpr(s ast.Stmt) ast.Expr {
	isRecv := func(e ast.Expr) ast.Expr {
		if u, ok := e.(*ast.UnaryExpr); ok && u.Op == token.ARROW {
			return u.X
		}
		return nil
	}
	switch t := s.(type) {
	case *ast.ExprStmt:
		return isRecv(t.X)
	case *ast.AssignStmt:
		if len(t.Rhs) == 1 {
			return isRecv(t.Rhs[0])
		}
	}
	return nil
}

func rewriteFile(name string, src []byte) ([]byte, []string, error) {
	fset := token.NewFileSet()
	f, err := parser.ParseFile(fset, name, src, parser.ParseComments)
	if err != nil {
		return nil, nil, err
	}
	var n []string
	rewriteList := func(list []ast.Stmt) []ast.Stmt {
		var out []ast.Stmt
		for i, s := range list {
			site := fmt.Sprintf("%s:%d", name, fset.Position(s.Pos()).Line)
			if x, write, ok := lockCall(s); ok && addressable(x) {
				hooked := i > 0 && isCallTo(list[i-1], "simLock", "simLockAuto")
				if !hooked {
					out = append(out, parseStmt(fmt.Sprintf("simLockAuto(%q, &%s, %v)", site, exprString(fset, x), write)))
					n = append(n, site)
				}
			}
			if send, ok := s.(*ast.SendStmt); ok {
				hooked := i > 0 && isCallTo(list[i-1], "simSend")
				if !hooked {
					ch := exprString(fset, send.Chan)
					out = append(out, parseStmt(fmt.Sprintf("simSend(%q, func() bool { return cap(%s) > 0 && len(%s) == cap(%s) })", site, ch, ch, ch)))
					n = append(n, site)
				}
			}
			if usesLockFreeSync(s) && !(i > 0 && isCallTo(list[i-1], "simYield")) {
				// sync/atomic, sync.Once and sync.Map operations order memory but are not locks: a
				// check-then-act built on them is race-free and still not atomic, so it gets a schedule point
				out = append(out, parseStmt(fmt.Sprintf("simYield(%q)", site)))
				n = append(n, site)
			}
			if ch := recvExpr(s); ch != nil {
				c := exprString(fset, ch)
				out = append(out, parseStmt(fmt.Sprintf("simRecvAuto(%q, func() bool { return cap(%s) > 0 && len(%s) == 0 })", site, c, c)))
				n = append(n, site)
			}
			out = append(out, s)
		}
		return out
	}
	ast.Inspect(f, func(node ast.Node) bool {
		switch t := node.(type) {
		case *ast.BlockStmt:
			t.List = rewriteList(t.List)
		case *ast.CaseClause:
			t.Body = rewriteList(t.Body)
		case *ast.CommClause:
			t.Body = rewriteList(t.Body) // the body of a select case, not its communication
		}
		return true
	})
	if len(n) == 0 {
		return src, nil, nil
	}
	var b bytes.Buffer
	if err := format.Node(&b, fset, f); err != nil {
		return nil, nil, err
	}
	return b.Bytes(), n, nil
}

const autoHookSource = `//go:build verif

package restful

import "sync"

// Generated into the scratch copy by simcheck (autohook.go); not part of the repository.

// SimKindProbe: a is a SimProbe.
const SimKindProbe = 3

// SimProbe lets the simulator probe an arbitrary lock without knowing its type.
type SimProbe struct {
	Lock interface{}  // *sync.RWMutex or *sync.Mutex (identity)
	Try  func() bool // try to take and release the lock; false = it would block now
}

func (p SimProbe) Identity() interface{} { return p.Lock }
func (p SimProbe) TryNow() bool          { return p.Try() }

func simLockAuto(site string, l interface{}, write bool) {
	if SimHook == nil {
		return
	}
	switch m := l.(type) {
	case *sync.RWMutex:
		SimHook(SimKindLock, site, m, write)
	case **sync.RWMutex:
		SimHook(SimKindLock, site, *m, write)
	case *sync.Mutex:
		SimHook(SimKindProbe, site, SimProbe{Lock: m, Try: func() bool {
			if m.TryLock() {
				m.Unlock()
				return true
			}
			return false
		}}, true)
	case **sync.Mutex:
		mm := *m
		SimHook(SimKindProbe, site, SimProbe{Lock: mm, Try: func() bool {
			if mm.TryLock() {
				mm.Unlock()
				return true
			}
			return false
		}}, true)
	}
}

// simRecvAuto: a blocking receive follows; empty() says whether it would block now.
func simRecvAuto(site string, empty func() bool) {
	if SimHook != nil {
		SimHook(SimKindSend, site, empty, false)
	}
}
`
