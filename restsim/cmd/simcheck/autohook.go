package main

import (
	"bytes"
	"fmt"
	"go/ast"
	"go/format"
	"go/parser"
	"go/token"
	"io"
	"os"
	"path/filepath"
	"strings"
)

// instrument copies the repository tree to a scratch directory and tops up the schedule points
// the simulator needs wherever the tree has none (go/ast rewriting, scratch copy only):
//
//   - every X.Lock() / X.RLock() call statement that is not directly preceded by a simLock(...) call
//     gets  simLockAuto("file:line", &X, write)  in front of it: a changed tree that locks in a new
//     place can then be scheduled (and deadlock-checked) instead of stalling the simulation;
//   - every blocking channel send statement  ch <- v  (not a select case) gets
//     simSend("file:line", func() bool { return len(ch) == cap(ch) })  in front of it, and every blocking
//     receive statement gets simRecvAuto: the window between a capacity check and the operation
//     becomes a schedule point, and an operation that would block is reported instead of hanging.
//
// On the unchanged tree this adds hooks only to the channel sends in NewBoundedCachedCompressors
// (constructor, runs on the scheduler goroutine). The files committed in /repo are not touched.
func instrument(repo string) (string, []string) {
	dst := filepath.Join(os.TempDir(), fmt.Sprintf("restsim-src-%x", hash64(repo)))
	os.RemoveAll(dst)
	if err := os.MkdirAll(dst, 0o755); err != nil {
		fatal("scratch copy: %v", err)
	}
	var inserted []string
	err := filepath.Walk(repo, func(path string, info os.FileInfo, err error) error {
		if err != nil {
			return err
		}
		rel, _ := filepath.Rel(repo, path)
		if info.IsDir() {
			if rel != "." && (strings.HasPrefix(info.Name(), ".") || info.Name() == "examples") {
				return filepath.SkipDir
			}
			return os.MkdirAll(filepath.Join(dst, rel), 0o755)
		}
		if !info.Mode().IsRegular() || strings.HasSuffix(rel, "_test.go") {
			return nil
		}
		if !(strings.HasSuffix(rel, ".go") || rel == "go.mod" || rel == "go.sum") {
			return nil
		}
		out := filepath.Join(dst, rel)
		if strings.HasSuffix(rel, ".go") && filepath.Dir(rel) == "." && !strings.HasPrefix(rel, "verif_hooks") {
			src, err := os.ReadFile(path)
			if err != nil {
				return err
			}
			res, n, err := rewriteFile(rel, src)
			if err != nil {
				// leave the file as it is; the compiler will report what is wrong with it
				return os.WriteFile(out, src, 0o644)
			}
			inserted = append(inserted, n...)
			return os.WriteFile(out, res, 0o644)
		}
		return copyFile(path, out)
	})
	if err != nil {
		fatal("scratch copy of %s: %v", repo, err)
	}
	if err := os.WriteFile(filepath.Join(dst, "verif_hooks_auto.go"), []byte(autoHookSource), 0o644); err != nil {
		fatal("%v", err)
	}
	return dst, inserted
}

func copyFile(from, to string) error {
	in, err := os.Open(from)
	if err != nil {
		return err
	}
	defer in.Close()
	out, err := os.Create(to)
	if err != nil {
		return err
	}
	defer out.Close()
	_, err = io.Copy(out, in)
	return err
}

func exprString(fset *token.FileSet, e ast.Expr) string {
	var b bytes.Buffer
	format.Node(&b, fset, e)
	return b.String()
}

func isCallTo(s ast.Stmt, names ...string) bool {
	es, ok := s.(*ast.ExprStmt)
	if !ok {
		return false
	}
	call, ok := es.X.(*ast.CallExpr)
	if !ok {
		return false
	}
	id, ok := call.Fun.(*ast.Ident)
	if !ok {
		return false
	}
	for _, n := range names {
		if id.Name == n {
			return true
		}
	}
	return false
}

func parseStmt(src string) ast.Stmt {
	e, err := parser.ParseExpr(src)
	if err != nil {
		panic(fmt.Sprintf("autohook: cannot parse %q: %v", src, err))
	}
	return &ast.ExprStmt{X: e}
}

// lockCall recognises  X.Lock()  /  X.RLock()  (also as the call of a defer-less statement).
func lockCall(s ast.Stmt) (x ast.Expr, write, ok bool) {
	es, isExpr := s.(*ast.ExprStmt)
	if !isExpr {
		return nil, false, false
	}
	call, isCall := es.X.(*ast.CallExpr)
	if !isCall || len(call.Args) != 0 {
		return nil, false, false
	}
	sel, isSel := call.Fun.(*ast.SelectorExpr)
	if !isSel {
		return nil, false, false
	}
	switch sel.Sel.Name {
	case "Lock":
		return sel.X, true, true
	case "RLock":
		return sel.X, false, true
	}
	return nil, false, false
}

// usesLockFreeSync reports whether a simple statement (not a block) calls into sync/atomic or uses
// the method names of sync.Once / sync.Map / atomic.Value (Do, LoadOrStore, CompareAndSwap, Swap,
// LoadAndDelete). Purely syntactic: an unrelated method of the same name only costs a schedule point.
func usesLockFreeSync(s ast.Stmt) bool {
	switch s.(type) {
	case *ast.ExprStmt, *ast.AssignStmt, *ast.ReturnStmt, *ast.IncDecStmt, *ast.DeferStmt:
	default:
		return false
	}
	found := false
	ast.Inspect(s, func(n ast.Node) bool {
		if _, isFunc := n.(*ast.FuncLit); isFunc {
			return false
		}
		call, ok := n.(*ast.CallExpr)
		if !ok {
			return true
		}
		sel, ok := call.Fun.(*ast.SelectorExpr)
		if !ok {
			return true
		}
		if id, ok := sel.X.(*ast.Ident); ok && id.Name == "atomic" {
			found = true
		}
		switch sel.Sel.Name {
		case "LoadOrStore", "CompareAndSwap", "LoadAndDelete", "Swap":
			found = true
		case "Load", "Store":
			// atomic.Value / atomic.Int32 / sync.Map: a Load followed by a separate Store is the classic
			// non-atomic pair (the package has no other methods of these names)
			if len(call.Args) <= 2 {
				found = true
			}
		case "Do":
			if len(call.Args) == 1 {
				found = true
			}
		}
		return true
	})
	return found
}

// addressable: &X is valid Go for these forms (a call result is not).
func addressable(e ast.Expr) bool {
	switch t := e.(type) {
	case *ast.Ident:
		return true
	case *ast.SelectorExpr:
		return addressable(t.X) || isCall(t.X)
	case *ast.IndexExpr:
		return true
	case *ast.StarExpr:
		return true
	case *ast.ParenExpr:
		return addressable(t.X)
	}
	return false
}

func isCall(e ast.Expr) bool {
	_, ok := e.(*ast.CallExpr)
	return ok
}

func recvExpr(s ast.Stmt) ast.Expr {
	isRecv := func(e ast.Expr) ast.Expr {
		if u, ok := e.(*ast.UnaryExpr); ok && u.Op == token.ARROW {
			return u.X
		}
		return nil
	}
	switch t := s.(type) {
	case *ast.ExprStmt:
		return isRecv(t.X)
	case *ast.AssignStmt:
		if len(t.Rhs) == 1 {
			return isRecv(t.Rhs[0])
		}
	}
	return nil
}

func rewriteFile(name string, src []byte) ([]byte, []string, error) {
	fset := token.NewFileSet()
	f, err := parser.ParseFile(fset, name, src, parser.ParseComments)
	if err != nil {
		return nil, nil, err
	}
	var n []string
	rewriteList := func(list []ast.Stmt) []ast.Stmt {
		var out []ast.Stmt
		for i, s := range list {
			site := fmt.Sprintf("%s:%d", name, fset.Position(s.Pos()).Line)
			if x, write, ok := lockCall(s); ok && addressable(x) {
				hooked := i > 0 && isCallTo(list[i-1], "simLock", "simLockAuto")
				if !hooked {
					out = append(out, parseStmt(fmt.Sprintf("simLockAuto(%q, &%s, %v)", site, exprString(fset, x), write)))
					n = append(n, site)
				}
			}
			if send, ok := s.(*ast.SendStmt); ok {
				hooked := i > 0 && isCallTo(list[i-1], "simSend")
				if !hooked {
					ch := exprString(fset, send.Chan)
					out = append(out, parseStmt(fmt.Sprintf("simSend(%q, func() bool { return cap(%s) > 0 && len(%s) == cap(%s) })", site, ch, ch, ch)))
					n = append(n, site)
				}
			}
			if usesLockFreeSync(s) && !(i > 0 && isCallTo(list[i-1], "simYield")) {
				// sync/atomic, sync.Once and sync.Map operations order memory but are not locks: a
				// check-then-act built on them is race-free and still not atomic, so it gets a schedule point
				out = append(out, parseStmt(fmt.Sprintf("simYield(%q)", site)))
				n = append(n, site)
			}
			if ch := recvExpr(s); ch != nil {
				c := exprString(fset, ch)
				out = append(out, parseStmt(fmt.Sprintf("simRecvAuto(%q, func() bool { return cap(%s) > 0 && len(%s) == 0 })", site, c, c)))
				n = append(n, site)
			}
			out = append(out, s)
		}
		return out
	}
	// goroutines the library starts itself are outside the scheduler's control; their presence switches
	// on the per-yield check "is this the task's own goroutine" (see sim.Task.Yield)
	ast.Inspect(f, func(node ast.Node) bool {
		if g, ok := node.(*ast.GoStmt); ok {
			n = append(n, fmt.Sprintf("go:%s:%d", name, fset.Position(g.Pos()).Line))
		}
		return true
	})
	// the clock: time.Now / Since / Until / Sleep read and advance the simulator's clock instead of the
	// machine's (a changed tree may introduce expiry times or pauses; the unchanged one has none)
	timeUsed := false
	for _, imp := range f.Imports {
		if imp.Path.Value == `"time"` && imp.Name == nil {
			timeUsed = true
		}
	}
	if timeUsed {
		rewrites := 0
		ast.Inspect(f, func(node ast.Node) bool {
			call, ok := node.(*ast.CallExpr)
			if !ok {
				return true
			}
			sel, ok := call.Fun.(*ast.SelectorExpr)
			if !ok {
				return true
			}
			if id, ok := sel.X.(*ast.Ident); ok && id.Name == "time" && id.Obj == nil {
				switch sel.Sel.Name {
				case "Now", "Since", "Until", "Sleep", "AfterFunc", "NewTimer", "After":
					call.Fun = &ast.Ident{Name: "simTime" + sel.Sel.Name, NamePos: sel.Pos()}
					n = append(n, fmt.Sprintf("time:%s:%d", name, fset.Position(sel.Pos()).Line))
					rewrites++
				}
			}
			return true
		})
		// the type of what AfterFunc / NewTimer return: time.Timer -> simTimer wherever it is named
		var fixType func(e *ast.Expr)
		fixType = func(e *ast.Expr) {
			if sel, ok := (*e).(*ast.SelectorExpr); ok {
				if id, ok := sel.X.(*ast.Ident); ok && id.Name == "time" && id.Obj == nil && sel.Sel.Name == "Timer" {
					*e = &ast.Ident{Name: "simTimer", NamePos: sel.Pos()}
					rewrites++
				}
			}
		}
		ast.Inspect(f, func(node ast.Node) bool {
			switch t := node.(type) {
			case *ast.StarExpr:
				fixType(&t.X)
			case *ast.Field:
				fixType(&t.Type)
			case *ast.ValueSpec:
				if t.Type != nil {
					fixType(&t.Type)
				}
			case *ast.CompositeLit:
				if t.Type != nil {
					fixType(&t.Type)
				}
			}
			return true
		})
		if rewrites > 0 {
			// keep the import used whatever is left
			f.Decls = append(f.Decls, &ast.GenDecl{Tok: token.VAR, Specs: []ast.Spec{&ast.ValueSpec{
				Names: []*ast.Ident{{Name: "_"}}, Values: []ast.Expr{&ast.SelectorExpr{X: &ast.Ident{Name: "time"}, Sel: &ast.Ident{Name: "Nanosecond"}}}}}})
		}
	}
	ast.Inspect(f, func(node ast.Node) bool {
		switch t := node.(type) {
		case *ast.BlockStmt:
			t.List = rewriteList(t.List)
		case *ast.CaseClause:
			t.Body = rewriteList(t.Body)
		case *ast.CommClause:
			t.Body = rewriteList(t.Body) // the body of a select case, not its communication
		}
		return true
	})
	if len(n) == 0 {
		return src, nil, nil
	}
	var b bytes.Buffer
	if err := format.Node(&b, fset, f); err != nil {
		return nil, nil, err
	}
	return b.Bytes(), n, nil
}

const autoHookSource = `//go:build verif

package restful

import (
	"sync"
	"time"
)

// Generated into the scratch copy by simcheck (autohook.go); not part of the repository.

// SimKindNow: a is a *time.Time to fill with the simulated time; SimKindSleep: a is a time.Duration.
const (
	SimKindNow   = 4
	SimKindSleep = 5
)

func simTimeNow() time.Time {
	if SimHook != nil {
		var t time.Time
		SimHook(SimKindNow, "time.Now", &t, false)
		if !t.IsZero() {
			return t
		}
	}
	return time.Now()
}

func simTimeSince(t time.Time) time.Duration { return simTimeNow().Sub(t) }
func simTimeUntil(t time.Time) time.Duration { return t.Sub(simTimeNow()) }

// simTimer stands for time.Timer: it is due on the simulator's clock, which fires it.
type simTimer struct {
	C       <-chan time.Time
	c       chan time.Time
	mu      sync.Mutex
	due     time.Time
	f       func()
	pending bool
	real    *time.Timer // when no simulator is attached
}

// SimKindTimer: a is a SimTimerHandle that became pending.
const SimKindTimer = 6

// SimTimerHandle is what the simulator sees of a pending timer.
type SimTimerHandle interface {
	Due() (time.Time, bool) // false: stopped or fired meanwhile
	Fire()                  // runs the function on a goroutine of its own / delivers on C, as time.Timer does
}

func (t *simTimer) Due() (time.Time, bool) {
	t.mu.Lock()
	defer t.mu.Unlock()
	return t.due, t.pending
}

func (t *simTimer) Fire() {
	t.mu.Lock()
	if !t.pending {
		t.mu.Unlock()
		return
	}
	t.pending = false
	f := t.f
	t.mu.Unlock()
	if f != nil {
		go f()
		return
	}
	select {
	case t.c <- simTimeNow():
	default:
	}
}

func (t *simTimer) arm(d time.Duration) {
	t.mu.Lock()
	t.due = simTimeNow().Add(d)
	t.pending = true
	t.mu.Unlock()
	SimHook(SimKindTimer, "time.Timer", SimTimerHandle(t), false)
}

func (t *simTimer) Stop() bool {
	if t.real != nil {
		return t.real.Stop()
	}
	t.mu.Lock()
	defer t.mu.Unlock()
	was := t.pending
	t.pending = false
	return was
}

func (t *simTimer) Reset(d time.Duration) bool {
	if t.real != nil {
		return t.real.Reset(d)
	}
	was := t.Stop()
	t.arm(d)
	return was
}

func simTimeAfterFunc(d time.Duration, f func()) *simTimer {
	if SimHook == nil {
		return &simTimer{real: time.AfterFunc(d, f)}
	}
	t := &simTimer{f: f}
	t.arm(d)
	return t
}

func simTimeNewTimer(d time.Duration) *simTimer {
	if SimHook == nil {
		r := time.NewTimer(d)
		return &simTimer{real: r, C: r.C}
	}
	c := make(chan time.Time, 1)
	t := &simTimer{c: c, C: c}
	t.arm(d)
	return t
}

func simTimeAfter(d time.Duration) <-chan time.Time { return simTimeNewTimer(d).C }

func simTimeSleep(d time.Duration) {
	if SimHook != nil {
		SimHook(SimKindSleep, "time.Sleep", d, false)
		return
	}
	time.Sleep(d)
}

// SimKindProbe: a is a SimProbe.
const SimKindProbe = 3

// SimProbe lets the simulator probe an arbitrary lock without knowing its type.
type SimProbe struct {
	Lock interface{}  // *sync.RWMutex or *sync.Mutex (identity)
	Try  func() bool // try to take and release the lock; false = it would block now
}

func (p SimProbe) Identity() interface{} { return p.Lock }
func (p SimProbe) TryNow() bool          { return p.Try() }

func simLockAuto(site string, l interface{}, write bool) {
	if SimHook == nil {
		return
	}
	switch m := l.(type) {
	case *sync.RWMutex:
		SimHook(SimKindLock, site, m, write)
	case **sync.RWMutex:
		SimHook(SimKindLock, site, *m, write)
	case *sync.Mutex:
		SimHook(SimKindProbe, site, SimProbe{Lock: m, Try: func() bool {
			if m.TryLock() {
				m.Unlock()
				return true
			}
			return false
		}}, true)
	case **sync.Mutex:
		mm := *m
		SimHook(SimKindProbe, site, SimProbe{Lock: mm, Try: func() bool {
			if mm.TryLock() {
				mm.Unlock()
				return true
			}
			return false
		}}, true)
	}
}

// simRecvAuto: a blocking receive follows; empty() says whether it would block now.
func simRecvAuto(site string, empty func() bool) {
	if SimHook != nil {
		SimHook(SimKindSend, site, empty, false)
	}
}
`
