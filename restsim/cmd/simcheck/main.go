// simcheck is the driver named in MANIFEST.json: it rebuilds the simulation workers from the
// repository's current working tree, fans seeds out over worker processes, applies the
// known-findings file, minimises the first new failure into a replay file, writes the evidence
// file and sets the exit code (0 held, 1 VIOLATION, 2 infrastructure trouble).
package main

import (
	"bufio"
	"bytes"
	"encoding/json"
	"fmt"
	"os"
	"os/exec"
	"path/filepath"
	"regexp"
	"runtime"
	"sort"
	"strconv"
	"strings"
	"sync"
	"time"
)

var verifDir = "/verif"

const workerHangTimeout = 120 * time.Second

// names of the schedule points added by the instrumentation pass; handed to the workers so that
// reports can name them
var autoSites []string

type violation struct {
	Class  string
	Detail string
}

type result struct {
	Prop       string          `json:"prop"`
	Index      uint64          `json:"index"`
	Seed       uint64          `json:"seed"`
	OK         bool            `json:"ok"`
	Class      string          `json:"class"`
	Detail     string          `json:"detail"`
	Violations []violation     `json:"violations"`
	Abnormal   string          `json:"abnormal"`
	ScenHash   uint64          `json:"scen_hash"`
	TraceHash  uint64          `json:"trace_hash"`
	Steps      uint64          `json:"steps"`
	Nontrivial bool            `json:"nontrivial"`
	Counts     map[string]int  `json:"counts"`
	Scenario   json.RawMessage `json:"scenario"`
	Gen        []uint32        `json:"gen"`
	Sched      []uint32        `json:"sched"`
	Blocks     [][2]int        `json:"blocks"`
	Race       string          `json:"race"`
	Flavour    string          `json:"flavour"`
	LogHash    uint64          `json:"log_hash"`
}

type replayFile struct {
	Property  string          `json:"property"`
	Tier      string          `json:"tier"`
	Flavour   string          `json:"flavour"`
	Seed      uint64          `json:"verif_seed"`
	Index     uint64          `json:"run_index"`
	Class     string          `json:"violation_class"`
	Detail    string          `json:"violation_detail"`
	Gen       []uint32        `json:"gen"`
	Sched     []uint32        `json:"sched"`
	SchedSeed uint64          `json:"sched_seed,omitempty"`
	Decoded   json.RawMessage `json:"decoded,omitempty"`
	Race      string          `json:"race_report,omitempty"`
	Note      string          `json:"note,omitempty"`
}

type knownFinding struct {
	ID          string `json:"id"`
	Property    string `json:"property"`
	Class       string `json:"class"`
	Match       string `json:"match"` // regular expression on the violation detail
	Description string `json:"description"`
	re          *regexp.Regexp
}

type knownFile struct {
	Findings []knownFinding `json:"findings"`
	Fixed    []string       `json:"fixed"`
}

func loadKnown() []knownFinding {
	data, err := os.ReadFile(filepath.Join(verifDir, "known_findings.json"))
	if err != nil {
		return nil
	}
	var kf knownFile
	if err := json.Unmarshal(data, &kf); err != nil {
		fatal("known_findings.json: %v", err)
	}
	for i := range kf.Findings {
		kf.Findings[i].re = regexp.MustCompile(kf.Findings[i].Match)
	}
	return kf.Findings
}

func matchKnown(known []knownFinding, prop string, v violation) *knownFinding {
	for i := range known {
		k := &known[i]
		if k.Property == prop && k.Class == v.Class && k.re.MatchString(v.Detail) {
			return k
		}
	}
	return nil
}

func fatal(format string, a ...interface{}) {
	fmt.Fprintf(os.Stderr, "simcheck: "+format+"\n", a...)
	os.Exit(2)
}

// ---- build -------------------------------------------------------------------------------

func goEnv() []string {
	env := os.Environ()
	env = append(env, "GOFLAGS=-mod=mod", "GOPROXY=off", "GOSUMDB=off", "GOTOOLCHAIN=local", "CGO_ENABLED=1")
	return env
}

// build compiles both worker flavours against the repository tree (VERIF_REPO or /repo) with the
// hooks enabled. Go's build cache makes the unchanged case take about a second.
func build() (norace, race string) {
	repo := os.Getenv("VERIF_REPO")
	if repo == "" {
		repo = "/repo"
	}
	repo, _ = filepath.Abs(repo)
	src := filepath.Join(verifDir, "restsim")
	binDir := filepath.Join(verifDir, "bin")
	os.MkdirAll(binDir, 0o755)
	args := []string{"build", "-tags", "verif"}
	suffix := ""
	origRepo := repo
	if os.Getenv("VERIF_NO_AUTOHOOK") == "" {
		// build against an instrumented scratch copy of the tree (autohook.go); removed after the build
		scratch, sites := instrument(repo)
		defer os.RemoveAll(scratch)
		repo = scratch
		autoSites = sites
		fmt.Printf("simcheck: scratch copy of %s instrumented (%d schedule points added where the tree has no hook)\n", origRepo, len(sites))
	}
	if repo != "/repo" {
		// scratch copy of the repository (sensitivity runs): same module, other replace target
		h := fmt.Sprintf("%x", hash64(origRepo))
		modDir := filepath.Join(verifDir, "restsim", ".mod")
		os.MkdirAll(modDir, 0o755)
		mod, err := os.ReadFile(filepath.Join(src, "go.mod"))
		if err != nil {
			fatal("%v", err)
		}
		mod = bytes.Replace(mod, []byte("=> /repo"), []byte("=> "+repo), 1)
		modfile := filepath.Join(modDir, h+".mod")
		os.WriteFile(modfile, mod, 0o644)
		sum, _ := os.ReadFile(filepath.Join(src, "go.sum"))
		os.WriteFile(filepath.Join(modDir, h+".sum"), sum, 0o644)
		args = append(args, "-modfile="+modfile)
		if origRepo != "/repo" {
			suffix = "-" + h
		}
	}
	norace = filepath.Join(binDir, "simworker"+suffix)
	race = filepath.Join(binDir, "simworker-race"+suffix)
	var wg sync.WaitGroup
	var errs [2]error
	var outs [2][]byte
	for i, spec := range [][]string{append(append([]string{}, args...), "-o", norace, "./cmd/simworker"), append(append([]string{}, args...), "-race", "-o", race, "./cmd/simworker")} {
		wg.Add(1)
		go func(i int, a []string) {
			defer wg.Done()
			cmd := exec.Command("go", a...)
			cmd.Dir = src
			cmd.Env = goEnv()
			outs[i], errs[i] = cmd.CombinedOutput()
		}(i, spec)
	}
	wg.Wait()
	for _, b := range []string{norace, race} {
		os.WriteFile(b+".sites", []byte(strings.Join(autoSites, "\n")), 0o644)
	}
	for i := range errs {
		if errs[i] != nil {
			fmt.Fprintf(os.Stderr, "%s\n", outs[i])
			fatal("building the simulation workers against %s failed: %v", repo, errs[i])
		}
	}
	return norace, race
}

func hash64(s string) uint64 {
	h := uint64(1469598103934665603)
	for _, c := range []byte(s) {
		h ^= uint64(c)
		h *= 1099511628211
	}
	return h
}

// ---- property table ---------------------------------------------------------------------------

type propPlan struct {
	UseRace         bool
	Level           string
	QuickRuns       int // norace runs
	QuickRace       int // race runs
	ThoroughRuns    int
	ThoroughRace    int
	Rule            string
	Assumptions     []string
	Real, Stub      []string
	FaultKinds      []string
	NotInjected     string
	QuickWallCap    time.Duration
	ThoroughCap     time.Duration
	EnumeratePrefix bool
}

// ---- running workers -----------------------------------------------------------------------------

type chunk struct {
	from, to uint64
	race     bool
}

type agg struct {
	mu          sync.Mutex
	evaluations int
	raceRuns    int
	steps       uint64
	counts      map[string]int
	distinct    map[[2]uint64]bool
	scenarios   map[uint64]bool
	samples     []json.RawMessage
	failures    []*result
	knownHits   map[string]int
	knownEx     map[string]string
	infra       []string
	inconcl     int
}

func runWorker(bin string, prop, tier string, seed uint64, c chunk, keepEvery uint64, a *agg, known []knownFinding, stop *bool) {
	cur := c.from
	for cur < c.to {
		a.mu.Lock()
		st := *stop
		a.mu.Unlock()
		if st {
			return
		}
		raceLog := ""
		args := []string{"-prop", prop, "-tier", tier, "-seed", fmt.Sprint(seed), "-from", fmt.Sprint(cur), "-to", fmt.Sprint(c.to), "-keep-every", fmt.Sprint(keepEvery)}
		env := append(os.Environ(), "GOMAXPROCS=1")
		if c.race {
			dir, _ := os.MkdirTemp("", "restsim-race")
			defer os.RemoveAll(dir)
			raceLog = filepath.Join(dir, "race")
			args = append(args, "-racelog", raceLog)
			env = append(env, "GORACE=log_path="+raceLog+" halt_on_error=0")
		}
		cmd := exec.Command(bin, args...)
		cmd.Env = env
		var stderr bytes.Buffer
		cmd.Stderr = &stderr
		stdout, _ := cmd.StdoutPipe()
		if err := cmd.Start(); err != nil {
			a.mu.Lock()
			a.infra = append(a.infra, "cannot start worker: "+err.Error())
			a.mu.Unlock()
			return
		}
		sc := bufio.NewScanner(stdout)
		sc.Buffer(make([]byte, 1<<20), 1<<28)
		started := int64(-1)
		finished := int64(-1)
		lines := make(chan string)
		go func() {
			for sc.Scan() {
				lines <- sc.Text()
			}
			close(lines)
		}()
		hung := false
	read:
		for {
			select {
			case line, ok := <-lines:
				if !ok {
					break read
				}
				if strings.HasPrefix(line, "START ") {
					started, _ = strconv.ParseInt(line[6:], 10, 64)
					continue
				}
				var r result
				if err := json.Unmarshal([]byte(line), &r); err != nil {
					continue
				}
				finished = int64(r.Index)
				a.add(&r, prop, known)
			case <-time.After(workerHangTimeout):
				// the in-process watchdog (8 s) should have ended the run long ago: infrastructure trouble
				hung = true
				cmd.Process.Kill()
				go func() {
					for range lines {
					}
				}()
				break read
			}
		}
		err := cmd.Wait()
		if hung {
			a.mu.Lock()
			a.infra = append(a.infra, fmt.Sprintf("worker produced no output for %v during run %d of %s and was killed", workerHangTimeout, started, prop))
			a.mu.Unlock()
			return
		}
		code := 0
		if err != nil {
			if ee, ok := err.(*exec.ExitError); ok {
				code = ee.ExitCode()
			} else {
				code = -1
			}
		}
		if code == 0 {
			return
		}
		if code == 3 && finished >= 0 {
			cur = uint64(finished) + 1
			continue
		}
		// the worker died in the middle of run `started`
		a.mu.Lock()
		tail := stderr.String()
		if len(tail) > 3000 {
			tail = tail[len(tail)-3000:]
		}
		r := &result{Prop: prop, Index: uint64(started), OK: false, Flavour: map[bool]string{true: "race", false: "norace"}[c.race]}
		if code == 1 && !strings.Contains(tail, "panic:") && !strings.Contains(tail, "fatal error:") && !strings.Contains(tail, "goroutine ") {
			r.Class = "library-exit"
			r.Detail = "the worker process was terminated with exit status 1 and no Go crash output: the library called os.Exit during this run"
		} else {
			r.Class = "infra-worker-died"
			r.Detail = fmt.Sprintf("worker exit status %d during run %d: %s", code, started, tail)
		}
		r.Violations = []violation{{r.Class, r.Detail}}
		a.failures = append(a.failures, r)
		a.mu.Unlock()
		if started < 0 {
			return
		}
		cur = uint64(started) + 1
	}
}

func (a *agg) add(r *result, prop string, known []knownFinding) {
	a.mu.Lock()
	defer a.mu.Unlock()
	a.evaluations++
	if r.Flavour == "race" {
		a.raceRuns++
	}
	a.steps += r.Steps
	for k, v := range r.Counts {
		a.counts[k] += v
	}
	a.scenarios[r.ScenHash] = true
	if r.Nontrivial {
		a.distinct[[2]uint64{r.ScenHash, r.TraceHash}] = true
	}
	if r.Abnormal == "step-cap" {
		a.inconcl++
	}
	if r.OK {
		if len(r.Scenario) > 0 && len(a.samples) < 3 {
			a.samples = append(a.samples, r.Scenario)
		}
		return
	}
	var fresh []violation
	for _, v := range r.Violations {
		if k := matchKnown(known, prop, v); k != nil {
			a.knownHits[k.ID]++
			if a.knownEx[k.ID] == "" {
				a.knownEx[k.ID] = v.Detail
			}
			continue
		}
		fresh = append(fresh, v)
	}
	if len(fresh) == 0 {
		return
	}
	r.Violations = fresh
	r.Class, r.Detail = fresh[0].Class, fresh[0].Detail
	a.failures = append(a.failures, r)
}

// ---- evidence ---------------------------------------------------------------------------------------

func writeEvidence(prop, tier string, seed uint64, plan propPlan, a *agg, wall float64, nviol int, extra map[string]interface{}) {
	samples := a.samples
	if len(samples) == 0 {
		samples = []json.RawMessage{json.RawMessage(`"no sample captured"`)}
	}
	faults := map[string]int{}
	reach := map[string]int{}
	other := map[string]int{}
	for k, v := range a.counts {
		switch {
		case strings.HasPrefix(k, "fault-"):
			faults[strings.TrimPrefix(k, "fault-")] = v
		case strings.HasPrefix(k, "reach:"):
			reach[strings.TrimPrefix(k, "reach:")] = v
		default:
			other[k] = v
		}
	}
	cov := map[string]interface{}{
		"evaluations":           a.evaluations,
		"distinct_nontrivial":   len(a.distinct),
		"rule":                  plan.Rule,
		"samples":               samples,
		"distinct_scenarios":    len(a.scenarios),
		"race_detector_runs":    a.raceRuns,
		"simulated_steps":       a.steps,
		"simulated_time_note":   "the library reads no clock; simulated time is the global step counter (one step = one scheduler decision)",
		"seeds_per_hour_note":   "every run executes one seed derived from (VERIF_SEED, property, tier, run index); seeds per hour = runs per hour",
		"runs_per_hour":         int(float64(a.evaluations) / wall * 3600),
		"faults_fired":          faults,
		"faults_not_injected":   plan.NotInjected,
		"reach_probes_runs":     reach,
		"counters":              other,
		"inconclusive_step_cap": a.inconcl,
		"known_finding_hits":    a.knownHits,
		"components_real":       plan.Real,
		"components_stub":       plan.Stub,
		"exhaustive":            false,
	}
	for k, v := range extra {
		cov[k] = v
	}
	ev := map[string]interface{}{
		"property_id": prop,
		"tier":        tier,
		"seed":        seed,
		"level":       plan.Level,
		"coverage":    cov,
		"assumptions": plan.Assumptions,
		"wall_s":      wall,
		"violations":  nviol,
	}
	data, _ := json.MarshalIndent(ev, "", " ")
	// evidence/ describes runs against /repo only; a run against another tree (VERIF_REPO: sensitivity
	// experiments) leaves its record beside it
	dir := "evidence"
	if r := os.Getenv("VERIF_REPO"); r != "" && r != "/repo" {
		dir = "evidence-scratch"
	}
	os.MkdirAll(filepath.Join(verifDir, dir), 0o755)
	if err := os.WriteFile(filepath.Join(verifDir, dir, prop+".json"), append(data, '\n'), 0o644); err != nil {
		fatal("writing evidence: %v", err)
	}
}

// ---- commands ------------------------------------------------------------------------------------------

func cmdRun(args []string) int {
	if len(args) < 1 {
		fatal("usage: simcheck run <property> [--tier quick|thorough] [--runs N] [--race-runs N]")
	}
	prop := args[0]
	tier := os.Getenv("VERIF_TIER")
	if tier == "" {
		tier = "quick"
	}
	runsOverride, raceOverride := -1, -1
	for i := 1; i < len(args); i++ {
		switch args[i] {
		case "--tier":
			i++
			tier = args[i]
		case "--runs":
			i++
			runsOverride, _ = strconv.Atoi(args[i])
		case "--race-runs":
			i++
			raceOverride, _ = strconv.Atoi(args[i])
		}
	}
	plan, ok := plans[prop]
	if !ok {
		fatal("no check for property %s", prop)
	}
	seed := uint64(1)
	if v := os.Getenv("VERIF_SEED"); v != "" {
		s, err := strconv.ParseInt(v, 10, 64)
		if err != nil {
			fatal("VERIF_SEED=%q is not an integer", v)
		}
		seed = uint64(s)
	}
	fmt.Printf("simcheck: property=%s tier=%s VERIF_SEED=%d\n", prop, tier, int64(seed))
	t0 := time.Now()
	norace, race := build()
	fmt.Printf("simcheck: workers rebuilt in %.1fs\n", time.Since(t0).Seconds())
	known := loadKnown()

	nNo, nRace := plan.QuickRuns, plan.QuickRace
	wallCap := plan.QuickWallCap
	if wallCap == 0 {
		wallCap = 90 * time.Second
	}
	if tier == "thorough" {
		nNo, nRace = plan.ThoroughRuns, plan.ThoroughRace
		wallCap = plan.ThoroughCap
		if wallCap == 0 {
			wallCap = 25 * time.Minute
		}
	}
	if runsOverride >= 0 {
		nNo = runsOverride
	}
	if raceOverride >= 0 {
		nRace = raceOverride
	}
	if !plan.UseRace {
		nRace = 0
	}
	// index space: [0,nNo) without the detector, [nNo, nNo+nRace) with it
	var chunks []chunk
	sizeNo, sizeRace := 100, 25
	if tier == "thorough" {
		sizeNo, sizeRace = 250, 50
	}
	for from := 0; from < nNo; from += sizeNo {
		to := from + sizeNo
		if to > nNo {
			to = nNo
		}
		chunks = append(chunks, chunk{uint64(from), uint64(to), false})
	}
	var raceChunks []chunk
	for from := nNo; from < nNo+nRace; from += sizeRace {
		to := from + sizeRace
		if to > nNo+nRace {
			to = nNo + nRace
		}
		raceChunks = append(raceChunks, chunk{uint64(from), uint64(to), true})
	}
	// interleave so both flavours make progress from the start
	var order []chunk
	for len(chunks) > 0 || len(raceChunks) > 0 {
		if len(raceChunks) > 0 {
			order = append(order, raceChunks[0])
			raceChunks = raceChunks[1:]
		}
		for k := 0; k < 2 && len(chunks) > 0; k++ {
			order = append(order, chunks[0])
			chunks = chunks[1:]
		}
	}
	a := &agg{counts: map[string]int{}, distinct: map[[2]uint64]bool{}, scenarios: map[uint64]bool{}, knownHits: map[string]int{}, knownEx: map[string]string{}}
	stop := false
	par := runtime.NumCPU()
	if par > 16 {
		par = 16
	}
	work := make(chan chunk)
	var wg sync.WaitGroup
	start := time.Now()
	for w := 0; w < par; w++ {
		wg.Add(1)
		go func() {
			defer wg.Done()
			for c := range work {
				bin := norace
				if c.race {
					bin = race
				}
				keep := uint64(0)
				if c.from%1000 == 0 {
					keep = 1000
				}
				runWorker(bin, prop, tier, seed, c, keep, a, known, &stop)
			}
		}()
	}
	capped := false
	for _, c := range order {
		a.mu.Lock()
		if len(a.failures) > 0 {
			stop = true
		}
		st := stop
		a.mu.Unlock()
		if st {
			break
		}
		if time.Since(start) > wallCap {
			capped = true
			break
		}
		work <- c
	}
	close(work)
	wg.Wait()
	wall := time.Since(start).Seconds()

	// known findings: one line each
	ids := make([]string, 0, len(a.knownHits))
	for id := range a.knownHits {
		ids = append(ids, id)
	}
	sort.Strings(ids)
	for _, id := range ids {
		fmt.Printf("KNOWN-FINDING: property=%s %s (%d runs) e.g. %s\n", prop, id, a.knownHits[id], a.knownEx[id])
	}

	exit := 0
	nviol := 0
	extra := map[string]interface{}{"wall_cap_hit": capped}
	if len(a.failures) > 0 {
		sort.Slice(a.failures, func(i, j int) bool { return a.failures[i].Index < a.failures[j].Index })
		f := a.failures[0]
		if strings.HasPrefix(f.Class, "infra-") {
			fmt.Printf("simcheck: infrastructure trouble in run %d: %s: %s\n", f.Index, f.Class, f.Detail)
			exit = 2
		} else {
			nviol = len(a.failures)
			path := report(norace, race, prop, tier, seed, f, known)
			fmt.Printf("VIOLATION property=%s replay=%s\n", prop, path)
			exit = 1
		}
	}
	for _, msg := range a.infra {
		fmt.Println("simcheck: infrastructure trouble:", msg)
		if exit == 0 {
			exit = 2
		}
	}
	writeEvidence(prop, tier, seed, plan, a, wall, nviol, extra)
	fmt.Printf("simcheck: %s %s: %d runs (%d with race detector), %d distinct non-trivial, %d steps, %.1fs wall, %d runs/hour, exit %d\n",
		prop, tier, a.evaluations, a.raceRuns, len(a.distinct), a.steps, wall, int(float64(a.evaluations)/wall*3600), exit)
	return exit
}

// report minimises a failure, verifies that the replay reproduces it, writes the replay file.
func report(norace, race, prop, tier string, seed uint64, f *result, known []knownFinding) string {
	dir := filepath.Join(verifDir, "replays")
	os.MkdirAll(dir, 0o755)
	tmp, _ := os.MkdirTemp(dir, "tmp-")
	defer os.RemoveAll(tmp)
	rp := &repro{norace: norace, race: race, prop: prop, tier: tier, known: known, tmpDir: tmp}
	fmt.Printf("simcheck: run %d (%s flavour) failed: %s: %s\n", f.Index, f.Flavour, f.Class, clip(f.Detail, 600))
	rf := replayFile{Property: prop, Tier: tier, Flavour: f.Flavour, Seed: seed, Index: f.Index, Class: f.Class, Detail: f.Detail, Gen: f.Gen, Sched: f.Sched, Race: f.Race}
	final := f
	if len(f.Gen)+len(f.Sched) > 0 && f.Class != "library-exit" || f.Class == "library-exit" && len(f.Gen) > 0 {
		if r0, ok := rp.try(f.Flavour, f.Gen, f.Sched, 0, f.Class); ok {
			budget := 4000
			if v := os.Getenv("VERIF_SHRINK_BUDGET"); v != "" {
				budget, _ = strconv.Atoi(v)
			}
			best, r := rp.minimise(f.Flavour, f.Gen, f.Sched, f.Blocks, f.Class, budget)
			if r == nil {
				r = r0
			}
			// the minimised tape must reproduce twice more in fresh processes
			okAll := true
			for k := 0; k < 2; k++ {
				if rr, ok := rp.try(f.Flavour, best.gen, best.sched, 0, f.Class); !ok {
					okAll = false
				} else {
					r = rr
				}
			}
			if okAll {
				fmt.Printf("simcheck: minimised tape from %d+%d to %d+%d entries (%d non-zero) in %d replays\n", len(f.Gen), len(f.Sched), len(best.gen), len(best.sched), nonzero(best.gen)+nonzero(best.sched), rp.execs)
				rf.Gen, rf.Sched = best.gen, best.sched
				final = r
			} else {
				rf.Note = "minimised tape did not reproduce reliably; the original tape is kept"
			}
		} else {
			rf.Note = "the failure did not reproduce from its tape in a fresh process; the original tape is kept as is"
			fmt.Println("simcheck: WARNING:", rf.Note)
		}
	} else if f.Class == "library-exit" {
		rf.Note = "process exit inside the library; replay re-executes run_index of verif_seed"
	}
	rf.Class, rf.Detail = final.Class, final.Detail
	rf.Decoded = final.Scenario
	if final.Race != "" {
		rf.Race = final.Race
	}
	name := fmt.Sprintf("%s-%s-seed%d-run%d.json", prop, sanitize(f.Class), int64(seed), f.Index)
	path := filepath.Join(dir, name)
	data, _ := json.MarshalIndent(rf, "", " ")
	os.WriteFile(path, append(data, '\n'), 0o644)
	// one full (non-lean) replay of the written file decodes scenario, schedule and events for the reader
	if len(rf.Gen)+len(rf.Sched) > 0 {
		if full, err := runReplay(norace, race, path, rf.Flavour, false); err == nil && full != nil && len(full.Scenario) > 0 {
			rf.Decoded = full.Scenario
			if full.Race != "" {
				rf.Race = full.Race
			}
			data, _ = json.MarshalIndent(rf, "", " ")
			os.WriteFile(path, append(data, '\n'), 0o644)
		}
	}
	fmt.Printf("simcheck: %s: %s\n", rf.Class, clip(rf.Detail, 1200))
	return path
}

func sanitize(s string) string {
	return regexp.MustCompile(`[^A-Za-z0-9_.-]+`).ReplaceAllString(s, "_")
}

func clip(s string, n int) string {
	if len(s) <= n {
		return s
	}
	return s[:n] + "…"
}

func cmdReplay(args []string) int {
	if len(args) < 1 {
		fatal("usage: simcheck replay <file>")
	}
	data, err := os.ReadFile(args[0])
	if err != nil {
		fatal("%v", err)
	}
	var rf replayFile
	if err := json.Unmarshal(data, &rf); err != nil {
		fatal("bad replay file: %v", err)
	}
	norace, race := build()
	known := loadKnown()
	var res *result
	if len(rf.Gen)+len(rf.Sched) == 0 && rf.Class == "library-exit" {
		// re-execute the seed-derived run
		tmp, _ := os.MkdirTemp("", "restsim-replay")
		defer os.RemoveAll(tmp)
		a := &agg{counts: map[string]int{}, distinct: map[[2]uint64]bool{}, scenarios: map[uint64]bool{}, knownHits: map[string]int{}, knownEx: map[string]string{}}
		stop := false
		runWorker(norace, rf.Property, rf.Tier, rf.Seed, chunk{rf.Index, rf.Index + 1, false}, 0, a, known, &stop)
		if len(a.failures) > 0 {
			res = a.failures[0]
		} else {
			res = &result{OK: true}
		}
	} else {
		res, err = runReplay(norace, race, args[0], rf.Flavour, false)
		if err != nil {
			fatal("%v", err)
		}
	}
	reproducedKnown := false
	for _, v := range res.Violations {
		if k := matchKnown(known, rf.Property, v); k != nil {
			fmt.Printf("KNOWN-FINDING: property=%s %s %s\n", rf.Property, k.ID, v.Detail)
			if v.Class == rf.Class {
				reproducedKnown = true
			}
			continue
		}
		if v.Class == rf.Class || rf.Class == "" {
			fmt.Printf("simcheck: %s: %s\n", v.Class, clip(v.Detail, 2000))
			if res.Race != "" {
				fmt.Println(res.Race)
			}
			fmt.Printf("VIOLATION property=%s replay=%s\n", rf.Property, args[0])
			return 1
		}
		fmt.Printf("simcheck: other violation class in replay: %s: %s\n", v.Class, clip(v.Detail, 400))
	}
	if reproducedKnown {
		fmt.Printf("simcheck: replay of %s reproduced class %q, which is a listed known finding (steps=%d)\n", args[0], rf.Class, res.Steps)
		return 0
	}
	fmt.Printf("simcheck: replay of %s did not reproduce class %q (steps=%d)\n", args[0], rf.Class, res.Steps)
	return 0
}

func main() {
	if d := os.Getenv("VERIF_DIR"); d != "" {
		verifDir = d
	} else if wd, err := os.Getwd(); err == nil {
		if _, err := os.Stat(filepath.Join(wd, "restsim", "go.mod")); err == nil {
			verifDir = wd
		}
	}
	if len(os.Args) < 2 {
		fatal("usage: simcheck run|replay|build|selftest ...")
	}
	switch os.Args[1] {
	case "build":
		build()
	case "run":
		os.Exit(cmdRun(os.Args[2:]))
	case "replay":
		os.Exit(cmdReplay(os.Args[2:]))
	case "selftest":
		os.Exit(cmdSelftest(os.Args[2:]))
	default:
		fatal("unknown command %q", os.Args[1])
	}
}
