package main

import (
	"bufio"
	"bytes"
	"encoding/json"
	"fmt"
	"os"
	"os/exec"
	"path/filepath"
	"sort"
	"strconv"
	"strings"
	"sync"
)

// selftest determinism: every run index is executed in several fresh processes, across
// GOMAXPROCS values and both flavours; the log hash (scenario, schedule trace, step count,
// verdict, every event of every task, every counter) must be identical.
func cmdSelftest(args []string) int {
	if len(args) < 1 || args[0] != "determinism" {
		fatal("usage: simcheck selftest determinism [--props C13,C12] [--runs N] [--tier quick]")
	}
	props := []string{}
	runs := 64
	tier := "quick"
	for i := 1; i < len(args); i++ {
		switch args[i] {
		case "--props":
			i++
			props = strings.Split(args[i], ",")
		case "--runs":
			i++
			runs, _ = strconv.Atoi(args[i])
		case "--tier":
			i++
			tier = args[i]
		}
	}
	if len(props) == 0 {
		for p := range plans {
			props = append(props, p)
		}
		sort.Strings(props)
	}
	norace, race := build()
	type key struct {
		prop string
		idx  uint64
	}
	type obs struct {
		hash uint64
		cfg  string
	}
	var mu sync.Mutex
	seen := map[key][]obs{}
	type job struct {
		prop       string
		bin        string
		flavour    string
		gomaxprocs int
		from, to   int
	}
	var jobs []job
	for _, p := range props {
		for _, fl := range []string{"norace", "race"} {
			if fl == "race" && !plans[p].UseRace {
				continue
			}
			bin := norace
			if fl == "race" {
				bin = race
			}
			for _, gmp := range []int{1, 4, 16} {
				// two different chunkings = different process boundaries and worker counts
				for _, step := range []int{runs, runs / 4} {
					if step < 1 {
						step = 1
					}
					for from := 0; from < runs; from += step {
						to := from + step
						if to > runs {
							to = runs
						}
						jobs = append(jobs, job{p, bin, fl, gmp, from, to})
					}
				}
			}
		}
	}
	work := make(chan job)
	var wg sync.WaitGroup
	infra := 0
	for w := 0; w < 16; w++ {
		wg.Add(1)
		go func() {
			defer wg.Done()
			for j := range work {
				cur := j.from
				for cur < j.to {
					a := []string{"-prop", j.prop, "-tier", tier, "-seed", "7", "-from", fmt.Sprint(cur), "-to", fmt.Sprint(j.to)}
					env := append(os.Environ(), fmt.Sprintf("GOMAXPROCS=%d", j.gomaxprocs))
					if j.flavour == "race" {
						dir, _ := os.MkdirTemp("", "restsim-race")
						a = append(a, "-racelog", filepath.Join(dir, "race"))
						env = append(env, "GORACE=log_path="+filepath.Join(dir, "race")+" halt_on_error=0")
						defer os.RemoveAll(dir)
					}
					cmd := exec.Command(j.bin, a...)
					cmd.Env = env
					var stderr bytes.Buffer
					cmd.Stderr = &stderr
					out, err := cmd.Output()
					last := -1
					sc := bufio.NewScanner(bytes.NewReader(out))
					sc.Buffer(make([]byte, 1<<20), 1<<28)
					for sc.Scan() {
						if !strings.HasPrefix(sc.Text(), "{") {
							continue
						}
						var r result
						if json.Unmarshal(sc.Bytes(), &r) != nil {
							continue
						}
						last = int(r.Index)
						mu.Lock()
						k := key{j.prop, r.Index}
						seen[k] = append(seen[k], obs{r.LogHash, fmt.Sprintf("%s/GOMAXPROCS=%d/chunk=%d-%d class=%s", j.flavour, j.gomaxprocs, j.from, j.to, r.Class)})
						mu.Unlock()
					}
					if err == nil {
						break
					}
					if ee, ok := err.(*exec.ExitError); ok && ee.ExitCode() == 3 && last >= 0 {
						cur = last + 1
						continue
					}
					mu.Lock()
					infra++
					fmt.Printf("selftest: worker failed (%v): %s\n", err, clip(stderr.String(), 500))
					mu.Unlock()
					break
				}
			}
		}()
	}
	for _, j := range jobs {
		work <- j
	}
	close(work)
	wg.Wait()
	bad := 0
	total := 0
	for k, os := range seen {
		total += len(os)
		for _, o := range os[1:] {
			if o.hash != os[0].hash {
				bad++
				if bad <= 10 {
					fmt.Printf("selftest: NONDETERMINISM property=%s run=%d: %s -> %x but %s -> %x\n", k.prop, k.idx, os[0].cfg, os[0].hash, o.cfg, o.hash)
				}
				break
			}
		}
	}
	fmt.Printf("selftest determinism: %d properties, %d run indices, %d executions compared, %d divergent, %d worker failures\n", len(props), len(seen), total, bad, infra)
	if bad > 0 || infra > 0 {
		return 2
	}
	return 0
}
