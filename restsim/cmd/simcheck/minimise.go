package main

import (
	"bytes"
	"encoding/json"
	"fmt"
	"os"
	"os/exec"
	"path/filepath"
	"runtime"
	"sort"
	"strings"
	"sync"
)

// ---- replay and minimisation ---------------------------------------------------------------------

type repro struct {
	norace, race string
	prop, tier   string
	known        []knownFinding
	tmpDir       string
	n            int
	mu           sync.Mutex
	execs        int
}

// try runs one candidate tape in a fresh process and reports whether a violation of the wanted
// class (not covered by a known finding) shows up. schedSeed != 0 replays the scenario only and
// draws a new schedule from that seed.
func (rp *repro) try(flavour string, gen, sched []uint32, schedSeed uint64, class string) (*result, bool) {
	rp.mu.Lock()
	rp.n++
	rp.execs++
	name := filepath.Join(rp.tmpDir, fmt.Sprintf("cand-%d.json", rp.n))
	rp.mu.Unlock()
	rf := replayFile{Property: rp.prop, Tier: rp.tier, Flavour: flavour, Gen: gen, Sched: sched, SchedSeed: schedSeed}
	data, _ := json.Marshal(rf)
	os.WriteFile(name, data, 0o644)
	defer os.Remove(name)
	res, err := runReplay(rp.norace, rp.race, name, flavour, true)
	if err != nil || res == nil {
		return nil, false
	}
	for _, v := range res.Violations {
		if v.Class == class && matchKnown(rp.known, rp.prop, v) == nil {
			res.Class, res.Detail = v.Class, v.Detail
			return res, true
		}
	}
	return res, false
}

func runReplay(norace, race, file, flavour string, lean bool) (*result, error) {
	bin := norace
	env := append(os.Environ(), "GOMAXPROCS=1")
	args := []string{"-replay", file}
	if lean {
		args = append(args, "-lean")
	}
	if flavour == "race" {
		bin = race
		dir, _ := os.MkdirTemp("", "restsim-race")
		defer os.RemoveAll(dir)
		args = append(args, "-racelog", filepath.Join(dir, "race"))
		env = append(env, "GORACE=log_path="+filepath.Join(dir, "race")+" halt_on_error=0")
	}
	cmd := exec.Command(bin, args...)
	cmd.Env = env
	var stderr bytes.Buffer
	cmd.Stderr = &stderr
	out, err := cmd.Output()
	var res *result
	for _, line := range strings.Split(string(out), "\n") {
		if strings.HasPrefix(line, "{") {
			var r result
			if json.Unmarshal([]byte(line), &r) == nil {
				res = &r
			}
		}
	}
	if res == nil {
		code := -1
		if ee, ok := err.(*exec.ExitError); ok {
			code = ee.ExitCode()
		}
		tail := stderr.String()
		if code == 1 && !strings.Contains(tail, "panic:") && !strings.Contains(tail, "fatal error:") && !strings.Contains(tail, "goroutine ") {
			return &result{OK: false, Class: "library-exit", Detail: "the library called os.Exit during this run",
				Violations: []violation{{"library-exit", "the library called os.Exit during this run"}}}, nil
		}
		return nil, fmt.Errorf("replay produced no result (exit %d): %s", code, tail)
	}
	return res, nil
}

func nonzero(xs []uint32) int {
	n := 0
	for _, x := range xs {
		if x != 0 {
			n++
		}
	}
	return n
}

func trimZeros(xs []uint32) []uint32 {
	n := len(xs)
	for n > 0 && xs[n-1] == 0 {
		n--
	}
	return append([]uint32{}, xs[:n]...)
}

func sum(xs []uint32) uint64 {
	var s uint64
	for _, x := range xs {
		s += uint64(x)
	}
	return s
}

// less orders tapes: fewer non-zero entries, then shorter, then smaller values.
func less(a, b []uint32) bool {
	if nonzero(a) != nonzero(b) {
		return nonzero(a) < nonzero(b)
	}
	if len(a) != len(b) {
		return len(a) < len(b)
	}
	return sum(a) < sum(b)
}

// mutations of one tape, simplest-first: truncations, zeroed blocks, deleted blocks (halving
// block sizes), lowered single values.
func mutations(xs []uint32, withDelete bool) [][]uint32 {
	var out [][]uint32
	n := len(xs)
	cp := func() []uint32 { return append([]uint32{}, xs...) }
	seen := map[int]bool{}
	for _, k := range []int{0, n / 8, n / 4, n / 2, 3 * n / 4, n - 1} {
		if k >= 0 && k < n && !seen[k] {
			seen[k] = true
			out = append(out, cp()[:k])
		}
	}
	for size := (n + 1) / 2; size >= 1; size /= 2 {
		for off := 0; off < n; off += size {
			end := off + size
			if end > n {
				end = n
			}
			if nonzero(xs[off:end]) > 0 {
				ys := cp()
				for i := off; i < end; i++ {
					ys[i] = 0
				}
				out = append(out, ys)
			}
			if withDelete && end-off < n {
				ys := cp()
				out = append(out, append(ys[:off], ys[end:]...))
			}
		}
		if size == 1 {
			break
		}
	}
	for i, v := range xs {
		if v > 1 {
			ys := cp()
			ys[i] = v / 2
			out = append(out, ys)
			ys = cp()
			ys[i] = v - 1
			out = append(out, ys)
		}
	}
	for i := range out {
		out[i] = trimZeros(out[i])
	}
	return out
}

// blockDeletions removes one generated element (request, operation, service, ...) at a time:
// the ranges recorded by Tape.Begin/End in the run that produced this tape, largest first.
func blockDeletions(xs []uint32, blocks [][2]int) [][]uint32 {
	bs := append([][2]int{}, blocks...)
	sort.SliceStable(bs, func(i, j int) bool { return bs[i][1]-bs[i][0] > bs[j][1]-bs[j][0] })
	var out [][]uint32
	for _, b := range bs {
		if b[0] < 0 || b[0] >= len(xs) || b[1] <= b[0] {
			continue
		}
		end := b[1]
		if end > len(xs) {
			end = len(xs)
		}
		ys := append([]uint32{}, xs[:b[0]]...)
		ys = append(ys, xs[end:]...)
		out = append(out, trimZeros(ys))
	}
	return out
}

type cand struct {
	gen, sched []uint32
}

// minimise shrinks a failing run while the same violation class persists. Phase A shrinks the
// scenario (generation tape); a smaller scenario has a different step structure, so each
// candidate is tried with the current schedule and with freshly drawn schedules. Phase B shrinks
// the schedule for the fixed scenario. Every candidate runs in a fresh process (the race runtime
// de-duplicates reports per process).
func (rp *repro) minimise(flavour string, gen, sched []uint32, blocks [][2]int, class string, budget int) (cand, *result) {
	best := cand{trimZeros(gen), trimZeros(sched)}
	bestBlocks := blocks
	var bestRes *result
	par := runtime.NumCPU()
	if par > 16 {
		par = 16
	}
	const research = 5 // fresh schedules tried per scenario candidate
	type attempt struct {
		gen, sched []uint32
		seed       uint64
	}
	// runAttempts evaluates attempts in parallel and returns the index of the first success.
	runAttempts := func(as []attempt) (int, *result) {
		type out struct {
			ok  bool
			res *result
		}
		outs := make([]out, len(as))
		for base := 0; base < len(as); base += par {
			end := base + par
			if end > len(as) {
				end = len(as)
			}
			var wg sync.WaitGroup
			for i := base; i < end; i++ {
				wg.Add(1)
				go func(i int) {
					defer wg.Done()
					r, ok := rp.try(flavour, as[i].gen, as[i].sched, as[i].seed, class)
					outs[i] = out{ok, r}
				}(i)
			}
			wg.Wait()
			for i := base; i < end; i++ {
				if outs[i].ok {
					return i, outs[i].res
				}
			}
		}
		return -1, nil
	}
	concurrent := len(best.sched) > 0
	for round := 0; round < 6 && rp.execs < budget; round++ {
		progress := false
		// phase A: scenario
		for again := true; again && rp.execs < budget; {
			again = false
			muts := append(blockDeletions(best.gen, bestBlocks), mutations(best.gen, true)...)
			group := 2
			if !concurrent {
				group = par
			}
			for base := 0; base < len(muts) && rp.execs < budget; base += group {
				var as []attempt
				end := base + group
				if end > len(muts) {
					end = len(muts)
				}
				for _, m := range muts[base:end] {
					if !less(m, best.gen) {
						continue
					}
					as = append(as, attempt{gen: m, sched: best.sched})
					if concurrent {
						for k := 1; k <= research; k++ {
							as = append(as, attempt{gen: m, seed: uint64(round*1000003+base*131+k) | 1})
						}
					}
				}
				if len(as) == 0 {
					continue
				}
				if i, r := runAttempts(as); i >= 0 {
					best = cand{trimZeros(as[i].gen), trimZeros(r.Sched)}
					bestRes = r
					bestBlocks = r.Blocks
					again, progress = true, true
					break
				}
			}
		}
		// phase B: schedule
		for again := true; again && rp.execs < budget && len(best.sched) > 0; {
			again = false
			muts := mutations(best.sched, false)
			for base := 0; base < len(muts) && rp.execs < budget; base += par {
				var as []attempt
				end := base + par
				if end > len(muts) {
					end = len(muts)
				}
				for _, m := range muts[base:end] {
					if less(m, best.sched) {
						as = append(as, attempt{gen: best.gen, sched: m})
					}
				}
				if len(as) == 0 {
					continue
				}
				if i, r := runAttempts(as); i >= 0 {
					best.sched = trimZeros(r.Sched)
					if !less(best.sched, as[i].sched) && !less(as[i].sched, best.sched) {
						best.sched = as[i].sched
					}
					bestRes = r
					again, progress = true, true
					break
				}
			}
		}
		if !progress {
			break
		}
	}
	return best, bestRes
}
