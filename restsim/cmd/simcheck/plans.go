package main

import "time"

var realAll = []string{"the whole go-restful package built from the repository's working tree (-tags verif)", "net/http.ServeMux", "compress/gzip", "compress/zlib", "compress/flate", "encoding/json", "encoding/xml", "sync.RWMutex", "sync.Pool", "Go race runtime (race-flavour runs)"}
var stubAll = []string{"http.ResponseWriter (sim.SimWriter)", "request Body (sim.SimBody)", "package logger and trace logger (harness)", "no http.Server, no sockets, no real goroutine scheduling between tasks (raw-pipe cooperative scheduler)"}

const notInjected = "message loss/duplication/reordering, partitions, clock skew, disk errors and allocation failure have no counterpart in this single-process, clock-free, storage-free library and are not injected"

var plans = map[string]propPlan{
	"C13": {UseRace: true, Level: "exploration", QuickRuns: 24000, QuickRace: 3000, ThoroughRuns: 400000, ThoroughRace: 60000,
		Rule:        "a run = one generated scenario (provider kind and capacities, cold/drained cache, entry point, recovery switch, 2-6 client tasks x 1-3 requests of kinds get/post-gzip/post-deflate/post-trunc/notfound/panic/early-close, payload and chunk sizes) executed under one seeded schedule (preemption at every provider call, writer call, body read, handler step); distinct = distinct (scenario hash, schedule-trace hash); non-trivial = a preemption happened while a pooled object was held, or a fault (truncated body, panic, early close) fired",
		Assumptions: []string{"sync.Pool's choice of object is outside the simulator; with that provider only identity-free verdicts are drawn", "between two yield points code runs atomically; torn accesses are left to the race detector's happens-before analysis", "a clean batch is evidence, not proof"},
		Real:        realAll, Stub: stubAll, NotInjected: notInjected, QuickWallCap: 60 * time.Second, ThoroughCap: 20 * time.Minute},
	"C12": {UseRace: true, Level: "exploration", QuickRuns: 16000, QuickRace: 3000, ThoroughRuns: 300000, ThoroughRace: 60000,
		Rule:        "a run = one generated scenario (router, entry point, trace on/off, 2-4 services on colliding roots with initial and pool routes, 1-2 admin tasks owning disjoint services and toggling membership/routes, 1-3 client tasks x 1-5 requests) executed under one seeded schedule with preemption at every lock hook, trace-logger call, If-condition, handler and writer call; distinct = distinct (scenario hash, schedule-trace hash); non-trivial = a request interval overlapped an admin operation or a lock probe found the lock taken",
		Assumptions: []string{"linearizability is checked with porcupine against the registration model with fresh-container outcomes; a timeout (Unknown) is counted as inconclusive and never reported", "between two yield points code runs atomically; torn accesses are left to the race detector's happens-before analysis", "a clean batch is evidence, not proof"},
		Real:        append([]string{"porcupine v1.3.0 linearizability checker"}, realAll...), Stub: stubAll, NotInjected: notInjected, QuickWallCap: 60 * time.Second, ThoroughCap: 20 * time.Minute},
}
