#!/bin/sh
# usage: mutant.sh <property> <patch-file | revert:<commit>> [simcheck args...]
# Applies a change to a scratch worktree of /repo, checks that it compiles and passes the
# repository's own suite, runs the property's check against it, removes the worktree.
prop=$1; what=$2; shift 2
wt=/tmp/wt-mut-$$
git -C /repo worktree add -q --detach $wt HEAD || exit 2
cleanup() { git -C /repo worktree remove --force $wt; rm -f /verif/bin/simworker-*-* /verif/bin/simworker-[0-9a-f]*; }
trap cleanup EXIT
case "$what" in
 revert:*) ( cd $wt && git revert --no-commit ${what#revert:} >/dev/null 2>&1 ) || { echo "MUTANT: revert does not apply"; exit 2; } ;;
 *) ( cd $wt && git apply "$what" ) || { echo "MUTANT: patch does not apply"; exit 2; } ;;
esac
( cd $wt && go build ./... && go vet -tags verif . >/dev/null 2>&1; go test -count=1 . 2>&1 | tail -1 | grep -q '^ok' ) || { echo "MUTANT: does not compile or fails the repository's own tests"; exit 3; }
cd /verif && VERIF_REPO=$wt ./check run $prop "$@" | grep -v "^simcheck: workers rebuilt"
echo "MUTANT-EXIT=$?"
