#!/bin/sh
# usage: mk.sh <num> <prop> <anglefile>
n=$1; prop=$2; angle=$3
wt=/tmp/sa-$n
git -C /repo worktree add -q --detach $wt HEAD || exit 2
python3 - "$prop" "$angle" "$wt" <<'PY'
import json,sys
prop,angle,wt=sys.argv[1:4]
for l in open('/verif/properties.jsonl'):
    p=json.loads(l)
    if p['id']==prop: break
angle_text=open(angle).read()
t=f"""# Task

You are working in a scratch git worktree of the Go library emicklei/go-restful (v3) at {wt}.
Work ONLY inside this directory. Do not read or write anything under /repo or /verif.
The sandbox has no network. Before every go command:
  export GOFLAGS=-mod=mod GOPROXY=off GOSUMDB=off GOTOOLCHAIN=local

## The property

Users of the library rely on the following property (id {p['id']}: {p['title']}):

> {p['statement']}

## What to deliver

Make a realistic change to the library's non-test source files that BREAKS this property, while
 * the package still compiles (`go build ./... && go vet .`),
 * the library's own test suite, unedited, still passes (`go test -count=1 .`),
 * the change looks like something a well-meaning contributor could really submit (a refactoring,
   optimisation, feature, hardening, clean-up ...) - not sabotage, no dead code whose only purpose is to break things,
 * the breakage needs something SPECIFIC to manifest: a particular interleaving of goroutines, a fault or
   panic at a particular point, a multi-step sequence of operations, an unusual but legal input, or two
   cooperating edits that each look fine alone. Ordinary use must NOT expose it at once.

## Angle for this round

{angle_text}

## Files to leave in {wt}

 1. the change itself, applied to the working tree, and `patch.diff` = output of `git diff` for the
    library's source files only (must apply to a clean checkout with `git apply`),
 2. `zz_demo_test.go` (package restful, test names starting with TestZZDemo): a demonstration that
    FAILS with the change and PASSES without it (say in meta.json if it needs `-race`). Make it
    deterministic if at all possible (force the interleaving with channels/hooks in the test's own
    handlers/filters/writers rather than hoping for it),
 3. `meta.json` with the keys: "property" ("{p['id']}"), "summary" (what was changed, the innocent
    motivation, what the mistake is), "needs_to_manifest" (exactly which circumstances expose it and
    which do not), "demo_command", "how_verified" (what you ran and saw, with and without the change).

Verify everything yourself before you finish: suite passes with the change; demo fails with it;
demo passes after `git apply -R patch.diff`; then re-apply the patch so the tree is left changed.
Do not commit. Your final message: two or three sentences on the change and the trigger.
"""
open(wt+'/TASK.md','w').write(t)
PY
echo $wt
