#!/bin/sh
# usage: save_seed.sh <agent-dir> <Sxx-name> <property> "<result text>"
# stores a confirmed seeded change under /verif/seeded/<Sxx-name>/
src=$1; name=$2; prop=$3; res=$4
d=/verif/seeded/$name
mkdir -p $d
cp $src/patch.diff $src/zz_demo_test.go $d/
cp $src/meta.json $d/agent_meta.json
python3 - "$d" "$prop" "$res" "$name" <<'PY'
import json,sys
d,prop,res,name=sys.argv[1:5]
a=json.load(open(d+'/agent_meta.json'))
m={"property":prop,"breaks":a.get("summary"),"needs_to_manifest":a.get("needs_to_manifest"),
"source":"independent sub-agent given only the property text, a scratch worktree and the round's angle (see DESIGN.md 8.5)",
"confirmed":"patch applies to /repo HEAD, compiles, repository suite passes with it, demonstration fails with it and passes without it (seeded_eval.sh)",
"what_i_ran":"./seeded_eval.sh seeded/%s %s"%(name,prop),"result":res}
json.dump(m,open(d+'/meta.json','w'),indent=1)
PY
echo saved $d
