#!/bin/sh
# usage: seeded_eval.sh <dir-with-patch.diff+zz_demo_test.go+meta.json> <property> [extra simcheck args]
# Confirms a seeded change in a scratch worktree (applies, compiles, repo suite passes, demo fails
# with / passes without), then runs the property's check against it.
d=$1; prop=$2; shift 2
export GOFLAGS=-mod=mod GOPROXY=off GOSUMDB=off GOTOOLCHAIN=local
wt=/tmp/wt-ev-$$
git -C /repo worktree add -q --detach $wt HEAD || exit 2
trap 'git -C /repo worktree remove --force $wt; rm -f /verif/bin/simworker-*-* /verif/bin/simworker-[0-9a-f]* ' EXIT
cd $wt
git apply $d/patch.diff || { echo "EVAL: patch does not apply"; exit 2; }
go build ./... && go vet . >/dev/null 2>&1 || { echo "EVAL: does not compile/vet"; exit 3; }
go test -count=1 . 2>&1 | tail -1 | grep -q '^ok' && echo "EVAL: repo suite passes with the change" || { echo "EVAL: repo suite FAILS with the change"; }
demo_cmd=$(python3 -c "import json,sys;print(json.load(open('$d/meta.json')).get('demo_command',''))")
runflags="-count=1"; echo "$demo_cmd" | grep -q -- "-race" && runflags="-count=1 -race"
cp $d/zz_demo_test.go . 
if go test $runflags -run 'Demo|ZZ' . >/tmp/ev-with.log 2>&1; then echo "EVAL: demo PASSES with the change (unexpected)"; else echo "EVAL: demo fails with the change (expected)"; fi
git apply -R $d/patch.diff
if go test $runflags -run 'Demo|ZZ' . >/tmp/ev-without.log 2>&1; then echo "EVAL: demo passes without the change (expected)"; else echo "EVAL: demo FAILS without the change (unexpected)"; tail -5 /tmp/ev-without.log; fi
rm zz_demo_test.go; git apply $d/patch.diff
cd /verif && VERIF_REPO=$wt ./check run $prop "$@" | grep -v "^simcheck: workers rebuilt" | cut -c1-700
